module verif

go 1.26
