module verif

go 1.26

require (
	github.com/anishathalye/porcupine v1.3.0
	golang.org/x/tools v0.48.0
)

require (
	golang.org/x/mod v0.38.0 // indirect
	golang.org/x/sync v0.22.0 // indirect
)
