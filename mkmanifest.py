#!/usr/bin/env python3
"""Regenerates MANIFEST.json from the table below (kept in one place so that the
manifest stays valid while checks are added)."""
import json, subprocess

HOOK_COMMITS = subprocess.run(
    ["git", "-C", "/repo", "log", "--format=%h %s", "--grep=^verif hooks"],
    capture_output=True, text=True).stdout.strip().splitlines()

# id -> (level, technique, text, note)
CHECKS = {
 "C01": ("exploration", "runtime monitoring: differential execution of generated programs (regular vs obfuscated build), stdout/exit status/test verdict oracle",
  "Feature-composed multi-package programs are built by the regular toolchain and by garble under several flag/seed configurations; the binaries are run on several argument vectors and stdout+exit status compared; `garble test` verdict lines and `garble run` output are compared with go test / go run.",
  "Programs come from a feature grammar (28 feature modules incl. //go:embed, standard-library generics/iterators over program types, generic aliases, GOOS/GOARCH- and tag-selected files, unsafe.Offsetof constants, anonymous structs, stringer enums; every fifth program has a cgo package), not all Go programs; only linux/amd64 is executed; the regular toolchain is the reference."),
 "C02": ("exploration", "runtime monitoring: byte-level scan of produced binaries against generated marker sets + metadata probes",
  "Every identifier, file, directory, package and module name of the generated programs is a unique random marker; the obfuscated binary is searched for each must-hide marker, the source/TMPDIR paths and the Go version; go version -m, the Go build ID note and the ELF section/symbol tables are probed (every fifth program has a cgo package and is linked externally). A marker only counts when the regular stripped binary of the same program contains it. A special-name program declares a type, function, field and variable named after every identifier-like string literal in garble's own sources (names it special-cases for std packages) and common Go API names: the name-map oracle (garbled sources kept by the hook) plus pclntab / type-string / field-name records of the binary decide whether such a name survived.",
  "Sensitivity is proven per marker against the regular stripped build; exceptions (exported methods, reflection, non-GOGARBLE packages) are not asserted present."),
 "C03": ("exploration", "runtime monitoring: sha256 comparison of repeated real builds; re-obfuscation of identical source by cache entry-diff deletion as schedule/map-order sampling; hook-counted compile actions",
  "Per (program, config) the first build in a private std-warm cache copy is the reference; the user packages are then re-obfuscated K times on byte-identical source by deleting exactly the cache entries that build created, varying -p, tree location, TMPDIR location and partial cache fill; two independent garble-cold builds and a warm build of one program are compared as well. Programs: composed multi-package programs, a literal-heavy program, a reflection program whose 18 reflected struct types share type and field names, control-flow programs with and without trash blocks.",
  "The clock cannot be set; equal toolchain/garble binary/platform throughout; control flow with trash blocks is a listed known finding."),
 "C04": ("exploration", "runtime monitoring: traces of executed obfuscated programs piped through garble reverse, frame-by-frame comparison with the -trimpath build's trace",
  "Generated call-chain programs (17 frame kinds incl. bound method values, method expressions, calls through interfaces, methods promoted from embedded pointers, literals in struct fields; 3 packages, one in a directory with a dot so that symbol names carry an escaped import path; panic / PrintStack / runtime.Callers terminals) are run as regular -trimpath and as obfuscated builds; the obfuscated stderr, embedded in surrounding text with LF/CRLF/no-final-newline variants, goes through `garble reverse` and every program frame (function and call-site position) must equal the regular trace; text without obfuscated tokens must pass through unchanged with exit status 1.",
  "pc offsets, goroutine ids and argument words are normalised; runtime frames are not compared; goroutine creation sites and closure indices under -literals are listed known findings."),
 "C05": ("exploration", "runtime monitoring: in-process application of the tree's literal obfuscator to generated programs + execution of the result; end-to-end differential through garble -literals",
  "Generated import-free programs with ~120 literals each (all forms incl. constant conversions such as string(typedConst), 16 positions, boundary lengths, 5 byte classes) are rewritten by the tree's literals.Obfuscate with each of the 5 obfuscators forced and with random choice over several PRNG seeds, compiled and run; every printed value is compared with the source bytes. The same programs plus -ldflags=-X targets go through garble -literals and are compared with the regular build.",
  "Literal contexts come from a fixed grammar; a hook reports which literals were actually rewritten and by which obfuscator."),
 "C06": ("exploration", "runtime monitoring: build histories over one shared cache compared step by step with fresh-cache reference builds; hook-counted compile actions on unchanged rebuilds",
  "Histories of garble builds (18-config alphabet: flags, seeds, GOGARBLE scopes, control flow, tags, -ldflags=-X with and without -literals and under GOGARBLE=module; edits: comment, leaf body, main body, new file, value and comment-only edits in a package four levels down) run over one GOCACHE/GARBLE_CACHE; after every step sha256 and stdout must equal a reference build of the same config and source version from a cache that never saw the program; every second step is repeated unchanged and must run zero compile/asm actions.",
  "References reuse an obfuscated std closure for their config; sha256 equality relies on reproducibility (C03)."),
 "C07": ("fault_enumeration", "runtime monitoring with fault injection: enumerated damage (delete/empty/truncate) to the cache files a real build created, then rebuild and compare with a fresh-cache build",
  "The cache files created by building a 4-package program (reflection facts flowing through three packages, one assembly package) are enumerated; every GARBLE_CACHE entry, sampled (quick) or all (thorough) GOCACHE entries of the build, the patched linker and its stamp are each (and in pairs) deleted, emptied, truncated to half and to one byte; all 15 non-empty subsets of four entries from different stores, whole-directory deletions and corrupt trim files are applied as well; after each plan a package is edited and the rebuild's exit status, sha256 and stdout (reflected names, assembly results) must equal a fresh-cache build.",
  "Faults are the statement's classes (missing, empty, truncated); size-preserving corruption is out of scope; each plan runs on its own copy of the cache."),
 "C08": ("exploration", "runtime monitoring: differential execution of generated reflection programs, repeated re-obfuscation as schedule (map-order) sampling; in-process differential test of the injected replacer",
  "Generated programs send fresh struct types of 8 shapes along 19 flow paths to reflecting sinks (TypeOf/ValueOf walks, json, fmt, FieldByName); each program is re-obfuscated R times with fresh action IDs and map orders and every case line must equal the regular build's line in all R builds. The replacer injected into binaries is compared with strings.NewReplacer on generated pair tables.",
  "Package qualifiers are stripped (not promised); two flow classes are listed known findings (fmt verbs, package-level any variable)."),
 "C09": ("exploration", "runtime monitoring: byte-level scan of -literals binaries for planted unique literals",
  "Unique planted literals (all forms/positions/lengths of C05 incl. constant conversions string(typedConst)/string(untypedConst)/nested/folded, a second package, an -ldflags=-X declaration, GOGARBLE subset variant, random -seed) are searched verbatim in the binary garble -literals produces; exceptions carry an `allowed` tag and are asserted visible in the regular binary instead.",
  "A must-hide literal only counts when the regular stripped binary contains it verbatim."),
 "C10": ("exploration", "runtime monitoring: differential execution of a crash catalogue (regular vs -tiny) over GOTRACEBACK settings and goroutine contexts",
  "A crash-catalogue program (31 crash kinds x main/goroutine/deferred/init contexts x GOTRACEBACK settings, recover paths, position queries) is run as a regular and as a -tiny build (default GOGARBLE and GOGARBLE limited to the program's module): tiny stderr must equal the program's own OWN:-prefixed lines, stdout and exit status must be equal, recovered values unchanged, own-frame positions blank with line 1.",
  "GOTRACEBACK=crash excluded; runtime-internal frames keep their positions because the runtime is never obfuscated."),
 "C11": ("exploration", "runtime monitoring: differential execution of generated //garble:controlflow functions with effect traces, over a random directive-parameter grid; hook-reported dispatcher counts as coverage",
  "Programs of 8 functions from 38 body kinds (loops, switches, ranges over every kind incl. int, select, defers, recover, eleven run-time panics, closures, method expressions, tuple assignment order, goroutines with sync primitives, recursion, shifts/overflow/NaN/complex arithmetic, goto loops, slice aliasing and conversions, pointer aliasing, embedded structs, ...), each with random directive parameters, are built regularly and with control-flow obfuscation; every call's results, ordered side-effect trace and panic value must equal the regular build's. Rejected builds are retried one function per program so the remaining functions are still judged; rejections are counted, not judged; the two shapes garble always rejects on the pinned tree (range over an iterator function, bound method values) are built on their own.",
  "Bodies come from fixed templates with random constants; functions whose build garble rejects are allowed by the statement; two body classes are listed known findings with dedicated witnesses."),
 "C12": ("exploration", "runtime monitoring: name maps extracted from the garbled sources actually compiled (hook) compared across build pairs that differ in one input",
  "One composed program (with two packages of identical declarations) is built under 10 (quick) to 16 (thorough) single-input variations; the name of every package-level object, method, field and interface method in the compiled program is extracted by a lock-step walk of original and garbled sources and compared pairwise: equal where -seed must fix it, different (>=99%) where an input must change it, different between packages, equal for identical struct shapes.",
  "Go-version variation is not exercised (one toolchain family per run); GOOS/GOARCH, GOGARBLE, garble binary and cold cache variations are thorough-only."),
 "C13": ("exploration", "runtime monitoring: cross-checking garble map output, the names in the compiled garbled sources (hook) and garble reverse output",
  "For composed programs under several flag sets, every obfuscated API-reachable object's name in the compiled garbled sources (name-map oracle, objectpaths computed independently with x/tools) must equal the `garble map` entry, must be listed, import paths must agree, and each listed name piped through `garble reverse` must come back as the original.",
  "Objects without objectpath are outside garble map by definition; GOGARBLE-subset configs are covered by C14."),
 "C14": ("exploration", "runtime monitoring: differential execution + byte-level binary scan per GOGARBLE pattern list; exit-status/stderr observation for rejected lists",
  "A 5-package module whose packages use each other's structs and functions in both directions is built under exact, glob, prefix, std-mixed, all and nothing-matching GOGARBLE lists (quick 13, thorough all 63 subsets + extras; one library is a sibling whose path has another's as a string prefix; every package reflects on a type of its own): output must equal the regular build, markers and planted literals of matched packages must be absent, those of unmatched packages present, runtime names present, and a list matching nothing must be rejected without output.",
  "Presence is only required for markers the regular stripped binary contains; cross-partition struct identity is a listed known finding with a dedicated witness."),
 "C15": ("exploration", "runtime monitoring: differential build+execution of generated struct-type pairs across packages",
  "Generated pairs of identical struct types (1-6 fields over 11 field-type kinds, embedded fields, generic instantiation, alias of anonymous struct, differing tags) declared in two or three packages are converted, assigned, built as composite values and selected in a third package; garble must build them and the program must print what the regular build prints.",
  "All packages inside GOGARBLE; field-name equality is observed through compilability/behaviour, not by reading garble's bookkeeping."),
 "C16": ("exploration", "runtime monitoring: in-process oracle over generated inputs + hook event stream of real builds",
  "The tree's own naming function is executed in-process on 10^5 (quick) to 4*10^6 (thorough) generated (salt, seed, name) triples (ASCII and Unicode identifiers, non-identifiers, and per salt a family of 24 identifiers of 40-400 bytes that differ only in their tail) and every name garble produces during real garble-cold builds (std + program, ~9*10^4 applications per build) is taken from a hook stream; each output is checked for well-formedness, export preservation, purity and per-salt distinctness.",
  "Inputs are PRNG-generated, not exhaustive; clash classification trusts an independent sha256 recomputation."),
 "C17": ("exploration", "runtime monitoring of concurrent real processes: sha256 against isolated builds, hook event histories (one CLOCK_MONOTONIC) checked offline - linker-digest invariant, writer agreement per key, porcupine linearizability of the package cache - with failpoint sleeps widening windows and staged schedules released on observed process state (/proc/<pid>/task/*/syscall shows the other command blocked in flock)",
  "Scenarios of 2-8 garble builds started together over one GOCACHE/GARBLE_CACHE/TMPDIR (identical, different flags, different projects; -p 1/2/16; warm, linker deleted, stale stamp, garble-cold, fully cold) must each exit 0 with the sha256 of the same command run alone; every linker digest executed must be that of a completely built linker; all writers of a cache key must agree; the recorded get/put history must be linearizable per key (porcupine); no garble temp entries may remain.",
  "Interleavings are sampled (sleep failpoints, repetitions) plus three steered ones (one command held between linker build / stamp / exec while the other waits on the lock), not enumerated; the evidence lists the overlap classes actually observed; porcupine timeout => inconclusive."),
 "C18": ("fault_enumeration", "runtime monitoring with crash injection: SIGKILL of the build's process group at enumerated hook failpoints and PRNG-chosen instants, then rerun and compare with an uninterrupted build",
  "A build in its own process group is killed at each named failpoint (after listing, around every step of the linker patch/build/stamp protocol, before cache writes, before executing compiler/linker for chosen packages, before clean-up and trim) and at PRNG-chosen instants, from warm and from linker-less cold cache copies; a sample of reruns is killed again; the final rerun must exit 0 with the uninterrupted build's sha256. The evidence lists the phases the kills landed in.",
  "SIGKILL of the process group models a crash; unsynced-page loss (power failure) is out of reach; each trial starts from a fresh copy of its start state."),
 "C19": ("exploration", "runtime monitoring: before/after snapshots (mode, size, sha256) of the source tree, the -debugdir target and a private TMPDIR around every command; strace -f -y log of every mutating syscall of the whole process tree checked against the allowed roots; file-set comparison of -debugdir output with go list",
  "22 (quick) to 29 (thorough) command/outcome combinations (build, test, run, reverse, map x success, list error, type error, dependency compile error, link error, failing test, program exit status, bad flags, GOGARBLE matching nothing) run in a tree containing unrelated files with a private TMPDIR; the tree must be byte-identical afterwards, no garble temp entries may remain, foreign -debugdir targets (files, subdirectories, regular file, symlink) must be refused and untouched, and an owned -debugdir must hold source and garbled files for every file go list reports on cold, warm and partially deleted caches.",
  "Only commands that exit are judged (kills: C18); go's own go-build* directories are not garble's."),
 "C20": ("exploration", "runtime monitoring: process-boundary observation (argv of spawned commands via a stub go) + in-process differential oracle",
  "garble is run on generated argument vectors with a recording stub `go` first on PATH; the argv of the go list and go build/test/run commands it spawns is compared with a reference splitter whose boolean/valued table is probed from the real go command at run time. The tree's own splitter functions are additionally run in-process on 2*10^4 (quick) to 10^6 (thorough) vectors.",
  "Flags-before-packages vectors only; the stub answers go list from a canned listing, so flag values are never validated by the real go."),
}

NOT_YET = {
}

ALL = ["C%02d" % i for i in range(1, 21)]

def main():
    checks = []
    for cid in ALL:
        if cid not in CHECKS:
            continue
        level, tech, text, note = CHECKS[cid]
        checks.append({
            "property_id": cid,
            "quick_cmd": "./vf check %s --tier quick" % cid,
            "thorough_cmd": "./vf check %s --tier thorough" % cid,
            "evidence_file": "/verif/evidence/%s.json" % cid,
            "replay_cmd_template": "./vf replay {path}",
            "engine": "vf",
            "level_claimed": {"category": level, "text": text, "design_ref": "DESIGN.md section 4, " + cid},
            "level_note": note,
            "technique": tech,
        })
    na = []
    for cid in ALL:
        if cid not in CHECKS:
            na.append({"property_id": cid, "reason": NOT_YET.get(cid, "runtime monitor not built yet (DESIGN.md section 7 build order); no claim is made")})
    m = {
        "version": 1,
        "setup_cmd": "./vf setup",
        "hooks": {
            "guard": "verif (Go build tag)",
            "enable": "go build -tags verif /repo (done by ./vf for every check; hook package internal/verifhook writes JSON events to $GARBLE_VERIF_LOG and implements $GARBLE_VERIF_FAIL failpoints)",
            "baseline_off_cmd": "/verif/baseline_off.sh",
            "source_commits": [l.split()[0] for l in HOOK_COMMITS],
            "add_only": True,
        },
        "engines": [{"name": "vf", "path": "/verif/cmd/vf", "serves_properties": sorted(CHECKS),
                     "kind_free_text": "Go harness: builds garble from /repo's working tree with hooks, generates workloads (programs, literals, argv vectors, fault plans, histories), runs them, and applies deterministic oracles to observed behaviour, binary bytes, spawned command lines, file-system effects and hook event logs"}],
        "checks": checks,
        "not_applicable": na,
        "notes": "All checks are ./vf check <ID> [--tier quick|thorough]; VERIF_SEED selects the case list. KNOWN_FINDINGS.txt lists findings and fixes. See DESIGN.md.",
    }
    json.dump(m, open("/verif/MANIFEST.json", "w"), indent=1)
    print("wrote MANIFEST.json with", len(checks), "checks,", len(na), "not_applicable")

main()
