#!/bin/bash
# Runs the repository's own test suite with the verif hook guard OFF
# (same environment as the recorded baseline: default go on PATH, toolchain auto-switch
# from the module cache, offline).
export GOFLAGS=-mod=mod GOPROXY=off
unset GOSUMDB GOTOOLCHAIN
cd /repo && exec go test -vet=off -count=1 -timeout 25m "$@" ./...
