// vf: runtime-monitoring harness for burrowers/garble (see /verif/DESIGN.md).
package main

import (
	"fmt"
	"os"
	"os/signal"
	"sort"
	"strconv"
	"syscall"
)

func usage() {
	fmt.Fprintln(os.Stderr, `usage:
  vf setup                          build base pool (plain std export data)
  vf check <ID> [--tier quick|thorough]
  vf list                           list registered checks
  vf replay <path>                  print a saved violation
env: VERIF_SEED (default 1), VERIF_TIER, VERIF_KEEP=1 (keep scratch)`)
	os.Exit(2)
}

func main() {
	if len(os.Args) < 2 {
		usage()
	}
	initScratch()
	sigc := make(chan os.Signal, 1)
	signal.Notify(sigc, syscall.SIGINT, syscall.SIGTERM)
	go func() {
		<-sigc
		cleanupScratch()
		os.Exit(130)
	}()
	rc := 0
	func() {
		defer cleanupScratch()
		switch os.Args[1] {
		case "setup":
			ensureBase()
			g := buildGarble("", false)
			// Pre-warm the configs most checks share.
			warmPool(g, false, K0, K1, K2, K3, K4, K5, K23, K8u, K8)
			warmPool(g, true, K0)
			fmt.Println("setup ok; garble", g.ID)
		case "list":
			ids := make([]string, 0, len(checks))
			for id := range checks {
				ids = append(ids, id)
			}
			sort.Strings(ids)
			for _, id := range ids {
				fmt.Println(id, checks[id].Level)
			}
		case "check":
			if len(os.Args) < 3 {
				usage()
			}
			id := os.Args[2]
			tier := envOr("VERIF_TIER", "quick")
			for i := 3; i < len(os.Args); i++ {
				switch os.Args[i] {
				case "--tier":
					i++
					tier = os.Args[i]
				case "quick", "thorough":
					tier = os.Args[i]
				}
			}
			if tier != "quick" && tier != "thorough" {
				usage()
			}
			seed, err := strconv.ParseInt(envOr("VERIF_SEED", "1"), 10, 64)
			if err != nil {
				seed = 1
			}
			rc = runCheck(id, tier, seed)
		case "gentest":
			// Generator self-test: every generated program must build with the regular toolchain.
			n, _ := strconv.Atoi(os.Args[2])
			bad := 0
			parallel(n, 4, func(i int) {
				p := generate(subRand(int64(i), "gentest"), GenOpts{})
				w := materialize(p, fmt.Sprintf("gt%d", i))
				bin := w.Root + "/plain.bin"
				r := w.plainBuild(bin, false)
				if !r.OK() {
					bad++
					fmt.Printf("program %d (%v): plain build failed:\n%s\n", i, p.Features, clip(r.Err, 2500))
					return
				}
				rr := runBin(bin, []string{"a", "b"}, nil, 0)
				if !rr.OK() {
					bad++
					fmt.Printf("program %d (%v): run failed: %s\n", i, p.Features, rr)
				}
				w.cleanup()
			})
			fmt.Println("gentest done, bad =", bad)
		case "genfeat":
			// vf genfeat <seed> <dir> feature...: write a composed program with exactly these features.
			sd, _ := strconv.ParseInt(os.Args[2], 10, 64)
			p := generate(subRand(sd, "genfeat"), GenOpts{Features: os.Args[4:]})
			writeTree(os.Args[3], p.Files)
			fmt.Println(p.Features)
		case "gencf":
			// vf gencf <seed> <dir> [kind...]: write a control-flow program for manual experiments.
			sd, _ := strconv.ParseInt(os.Args[2], 10, 64)
			var only []string
			if len(os.Args) > 4 {
				only = os.Args[4:]
			}
			n := 8
			if only != nil {
				n = len(only)
			}
			cp := genCFProg(subRand(sd, "c11", "quick", 0), n, nil, only, true, nil)
			writeTree(os.Args[3], cp.Prog.Files)
			fmt.Println(jsonStr(cp.Funcs))
		case "replay":
			if len(os.Args) < 3 {
				usage()
			}
			data, err := os.ReadFile(os.Args[2] + "/VIOLATION.txt")
			if err != nil {
				fatalf("%v", err)
			}
			os.Stdout.Write(data)
		default:
			usage()
		}
	}()
	os.Exit(rc)
}
