package main

import (
	"bytes"
	"fmt"
	"math/rand"
	"os"
	"path/filepath"
	"strings"
	"sync"
	"time"
)

func init() { register("C06", "exploration", checkC06) }

const histMod = "zqhist.example.com/h"

// histSource renders the history program at a given edit version.
// Edits: e["leaf"] bumps a constant in the leaf package, e["main"] changes main's body,
// e["comment"] adds a comment, e["file"] adds a file to the middle package.
func histSource(e map[string]int) map[string]string {
	files := map[string]string{
		"go.mod": "module " + histMod + "\n\ngo 1.26\n",
		"main.go": fmt.Sprintf(`package main

import (
	"fmt"

	"%[1]s/zqmid"
)

var version = "default-version-string"

var zqOther = "another literal that is long enough"

//garble:controlflow flatten_passes=1 junk_jumps=2
func zqflat(n int) int {
	s := 0
	for i := 0; i < n; i++ {
		if i%%2 == 0 {
			s += i
		} else {
			s -= 1
		}
	}
	return s
}

func main() {
	fmt.Println("hist", version, zqOther, zqmid.ZqMid(%[2]d), zqflat(9), zqTagged(), zqmid.ZqWrapNames(zqMainT{}))
}

type zqMainT struct{ zqMainF int }
`, histMod, 3+e["main"]),
		"tag_a.go":    "//go:build zqtaga\n\npackage main\n\nfunc zqTagged() string { return \"built with tag a\" }\n",
		"tag_b.go":    "//go:build zqtagb && !zqtaga\n\npackage main\n\nfunc zqTagged() string { return \"built with tag b\" }\n",
		"tag_none.go": "//go:build !zqtaga && !zqtagb\n\npackage main\n\nfunc zqTagged() string { return \"built without tags\" }\n",
		"zqmid/mid.go": fmt.Sprintf(`package zqmid

import "%[1]s/zqmid/zqleaf"

type ZqMidT struct {
	ZqA int
	ZqB string
}

//go:noinline
func ZqMid(n int) string {
	t := ZqMidT{ZqA: zqleaf.ZqLeaf(n), ZqB: "a literal in the middle package"}
	return t.ZqB + string(rune('0'+t.ZqA%%10))%[2]s
}

// ZqWrapNames hands its argument on to a reflecting function of the leaf package.
//
//go:noinline
func ZqWrapNames(v any) string { return zqleaf.ZqNames(v) + "+" + zqleaf.ZqNames(ZqMidT{}) }
`, histMod, func() string {
			if e["file"] > 0 {
				return " + zqExtra()"
			}
			return ""
		}()),
		"zqmid/zqleaf/leaf.go": fmt.Sprintf("package zqleaf\n\nimport (\n\t\"reflect\"\n\n\t\"%s/zqmid/zqleaf/zqdeep\"\n)\n\n%s//go:noinline\nfunc ZqLeaf(n int) int { return n*%d + len(zqLeafLit) + zqdeep.ZqDeepWeight(n) }\n\nvar zqLeafLit = \"leaf literal value\"\n\ntype ZqLeafT struct{ ZqLeafF int }\n\n// ZqNames reflects on its argument: facts about it flow to every dependant through garble's cache.\n//\n//go:noinline\nfunc ZqNames(v any) string {\n\tt := reflect.TypeOf(v)\n\treturn t.Name() + \"/\" + t.Field(0).Name + \"/\" + reflect.TypeOf(ZqLeafT{}).Name() + \"/\" + zqdeep.ZqDeepName()\n}\n", histMod, strings.Repeat("// a comment edit\n", e["comment"]), 7+e["leaf"]),
		// a package three imports away from main: an edit to the body of its non-inlined function (or a comment
		// appended at the end of the file) changes its own action ID but not the compiled output of the packages in between
		"zqmid/zqleaf/zqdeep/deep.go": fmt.Sprintf("package zqdeep\n\nimport \"reflect\"\n\ntype ZqDeepT struct{ ZqDeepF int }\n\n//go:noinline\nfunc ZqDeepWeight(n int) int { return n %% %d }\n\n// ZqDeepName reflects on a type of this package.\n//\n//go:noinline\nfunc ZqDeepName() string {\n\tt := reflect.TypeOf(ZqDeepT{})\n\treturn t.Name() + \".\" + t.Field(0).Name\n}\n%s", 5+e["deep"], strings.Repeat("\n// a comment appended at the end\n", e["deepcomment"])),
	}
	if e["file"] > 0 {
		files["zqmid/extra.go"] = fmt.Sprintf("package zqmid\n\nfunc zqExtra() string { return \"extra file v%d\" }\n", e["file"])
	}
	return files
}

func editKey(e map[string]int) string {
	return fmt.Sprintf("l%d-m%d-c%d-f%d-d%d-dc%d", e["leaf"], e["main"], e["comment"], e["file"], e["deep"], e["deepcomment"])
}

func histAlphabet() []Config {
	tagsA := []string{"-tags=zqtaga"}
	tagsB := []string{"-tags=zqtagb"}
	x1 := []string{"-ldflags=-X=main.version=injected-one"}
	x2 := []string{"-ldflags=-X=main.version=injected-two"}
	return []Config{
		K0, K1, K2, K3, K4,
		K0.with("K6", nil, []string{"GOGARBLE=" + histMod}, nil),
		K0.with("K7", nil, []string{"GOGARBLE=" + histMod + "/zqmid"}, nil),
		K8u,
		K0.with("K0+tagsA", nil, nil, tagsA),
		K0.with("K0+tagsB", nil, nil, tagsB),
		// a build tag that selects other files of package runtime (time_fake.go) and of nothing else:
		// the runtime's action ID changes while its dependencies (internal/abi, ...) stay cached
		K0.with("K0+tagsRT", nil, nil, []string{"-tags=faketime"}),
		K0.with("K0+X1", nil, nil, x1),
		K0.with("K0+X2", nil, nil, x2),
		K2.with("K2+X1", nil, nil, x1),
		K2.with("K2+X2", nil, nil, x2),
		K3.with("K3+tagsA", nil, nil, tagsA),
		// crossed axes: a GOGARBLE scope other than * together with -literals and -ldflags=-X
		K2.with("K26", nil, []string{"GOGARBLE=" + histMod}, nil),
		K2.with("K26+X1", nil, []string{"GOGARBLE=" + histMod}, x1),
		K2.with("K26+X2", nil, []string{"GOGARBLE=" + histMod}, x2),
	}
}

// warmKey strips the build flags (tags, ldflags) that do not change the std closure.
func warmConfigs(alpha []Config) []Config {
	seen := map[string]bool{}
	var out []Config
	for _, c := range alpha {
		w := Config{Name: c.Name, GFlags: c.GFlags, Env: c.Env}
		k := strings.Join(w.GFlags, " ") + "|" + strings.Join(w.Env, " ")
		if !seen[k] {
			seen[k] = true
			w.Name = "W" + fmt.Sprint(len(out))
			out = append(out, w)
		}
	}
	return out
}

func checkC06(c *Ctx) {
	c.SetRule("histories of garble builds over one shared (GOCACHE, GARBLE_CACHE): each step picks a config from {default, -tiny, -literals, -seed=A, -seed=B, GOGARBLE=module, GOGARBLE=subtree, controlflow on, -tags a, -tags b, -tags=faketime (changes package runtime only), -ldflags=-X v1/v2 with and without -literals, -seed+-tags, GOGARBLE=module with -literals and -X none/v1/v2} " +
		"and optionally an edit {none, comment, leaf package body, main body, add a file}; after every step the binary's sha256 and stdout are compared with a reference build of the same (config, source version) made in a fresh cache copy that has never seen the program; " +
		"unchanged-rebuild probes repeat a step and require zero compile/asm actions (hook toolexec.begin events). Histories are PRNG-generated plus the ordered pairs that stress the acknowledged -literals/-ldflags=-X risk. " +
		"distinct_nontrivial = distinct (previous config -> config, edit) steps that recompiled >=1 package, plus unchanged-rebuild probes.")
	c.Assume("reference builds start from caches holding only the obfuscated std closure of that config (std staleness across garble versions is covered by the pool keying on the garble binary)", "configs compared by sha256 are reproducible (C03); control flow without trash blocks")
	g := buildGarble("", false)
	alpha := histAlphabet()
	// GOGARBLE configs that do not match the warm program cannot be pre-warmed; they are warmed by the first reference build.
	var prewarm []Config
	for _, w := range warmConfigs(alpha) {
		gg := false
		for _, e := range w.Env {
			if strings.HasPrefix(e, "GOGARBLE=") {
				gg = true
			}
		}
		if !gg {
			prewarm = append(prewarm, w)
		}
	}
	pool := warmPool(g, false, prewarm...)
	// Warm the GOGARBLE variants once on the shared pool (their std closure is not obfuscated but still keyed by GOGARBLE).
	{
		w := materialize(&Prog{Module: histMod, Files: histSource(map[string]int{})}, "c06warm")
		var wg sync.WaitGroup
		for _, cfg := range alpha {
			if cfg.Name == "K6" || cfg.Name == "K7" {
				wg.Add(1)
				go func(cfg Config) {
					defer wg.Done()
					w.garbleBuild(g, pool.Box(filepath.Join(w.Root, "tmp-"+cfg.Name)), cfg, filepath.Join(w.Root, cfg.Name+".bin"), nil)
				}(cfg)
			}
		}
		wg.Wait()
		w.cleanup()
	}

	type refKey struct{ cfg, edit string }
	type refVal struct {
		sha string
		out []byte
		rc  int
		ok  bool
	}
	var refMu sync.Mutex
	refs := map[refKey]*refVal{}
	reference := func(cfg Config, e map[string]int) *refVal {
		k := refKey{cfg.Key(), editKey(e)}
		refMu.Lock()
		if v, ok := refs[k]; ok {
			refMu.Unlock()
			return v
		}
		refMu.Unlock()
		w := materialize(&Prog{Module: histMod, Files: histSource(e)}, "c06ref")
		defer w.cleanup()
		box := warmClone(pool, "c06refbox")
		bin := filepath.Join(w.Root, "ref.bin")
		r := w.garbleBuild(g, box, cfg, bin, nil)
		v := &refVal{}
		if r.OK() {
			v.ok = true
			v.sha = fileSha(bin)
			rr := runBin(bin, nil, nil, time.Minute)
			v.out, v.rc = rr.Out, rr.RC
		}
		chmodAndRemove(filepath.Dir(box.GoCache))
		refMu.Lock()
		refs[k] = v
		refMu.Unlock()
		return v
	}

	type step struct {
		cfg  Config
		edit string // "", comment, leaf, main, file
	}
	byName := map[string]Config{}
	for _, a := range alpha {
		byName[a.Name] = a
	}
	var histories [][]step
	// The acknowledged risk first: -literals with changing -ldflags=-X, both orders, and with an unrelated rebuild between.
	histories = append(histories,
		[]step{{byName["K2"], ""}, {byName["K2+X1"], ""}, {byName["K2+X2"], ""}, {byName["K2"], ""}},
		[]step{{byName["K2+X1"], ""}, {byName["K0+X1"], ""}, {byName["K2+X2"], ""}, {byName["K0+X2"], ""}, {byName["K2"], "main"}},
		// the same risk under a GOGARBLE scope that names the module instead of "*"
		[]step{{byName["K26"], ""}, {byName["K26+X1"], ""}, {byName["K26+X2"], ""}, {byName["K26"], ""}, {byName["K6"], ""}, {byName["K26+X1"], ""}},
		// only the runtime's inputs change: values garble patches into the runtime's dependencies must not
		// be derived from the runtime's action ID (defect #28: the binary died at start-up)
		[]step{{byName["K0+tagsRT"], ""}, {byName["K0"], ""}, {byName["K0+tagsRT"], "main"}},
		// edits in a reflecting dependency: the dependants' cached reflection facts must not go stale
		[]step{{byName["K0"], ""}, {byName["K0"], "leaf"}, {byName["K0"], "deep"}, {byName["K0"], "deepcomment"}, {byName["K0"], "comment"}, {byName["K0"], "main"}, {byName["K0"], "deep"}, {byName["K0"], "file"}},
	)
	nh, hl := c.pick(2, 10), c.pick(6, 10)
	for h := 0; h < nh; h++ {
		r := subRand(c.Seed, "c06", c.Tier, h)
		var hs []step
		for s := 0; s < hl; s++ {
			ed := []string{"", "", "comment", "leaf", "main", "file", "deep", "deepcomment"}[r.Intn(8)]
			hs = append(hs, step{alpha[r.Intn(len(alpha))], ed})
		}
		histories = append(histories, hs)
	}
	if !c.Quick() {
		// pairwise covering of ordered config pairs
		var hs []step
		r := rand.New(rand.NewSource(c.Seed))
		for i := range alpha {
			for j := range alpha {
				if i != j && r.Intn(3) == 0 {
					hs = append(hs, step{alpha[i], ""}, step{alpha[j], []string{"", "leaf"}[r.Intn(2)]})
				}
				if len(hs) >= 24 {
					histories = append(histories, hs)
					hs = nil
				}
			}
		}
		if len(hs) > 0 {
			histories = append(histories, hs)
		}
	}
	pairsCovered := map[string]bool{}
	var pmu sync.Mutex
	parallel(len(histories), 4, func(hi int) {
		hs := histories[hi]
		box := warmClone(pool, fmt.Sprintf("c06hist%d", hi))
		defer chmodAndRemove(filepath.Dir(box.GoCache))
		e := map[string]int{}
		root := scratch(fmt.Sprintf("c06h%d", hi))
		src := filepath.Join(root, "zqsrc")
		prev := "start"
		var trail []string
		for si, st := range hs {
			if st.edit != "" {
				e[st.edit]++
			}
			// rewrite the tree in place (same directory, like a developer editing files)
			os.RemoveAll(src)
			writeTree(src, histSource(e))
			w := &Work{Prog: &Prog{Module: histMod, Files: histSource(e)}, Dir: src, Root: root}
			logDir := filepath.Join(root, fmt.Sprintf("log%d", si))
			must(os.MkdirAll(logDir, 0o755))
			bin := filepath.Join(root, fmt.Sprintf("step%d.bin", si))
			r := w.garbleBuild(g, box, st.cfg, bin, []string{"GARBLE_VERIF_LOG=" + logDir})
			trail = append(trail, fmt.Sprintf("step %d: config %s edit=%q -> rc=%d", si, st.cfg.Key(), st.edit, r.RC))
			if r.TimedOut {
				c.Inconclusive("history step watchdog fired")
				return
			}
			ref := reference(st.cfg, e)
			ncompile := 0
			for _, ev := range readEvents(logDir) {
				if ev.Kind == "toolexec.begin" && (ev.Str("tool") == "compile" || ev.Str("tool") == "asm") && ev.Pkg != "" {
					ncompile++
				}
			}
			sig := ""
			if ncompile > 0 {
				sig = fmt.Sprintf("%s->%s|%s", prev, st.cfg.Name, st.edit)
			}
			c.Eval(sig)
			pmu.Lock()
			pairsCovered[prev+"->"+st.cfg.Name] = true
			pmu.Unlock()
			files := func() map[string]string {
				m := w.replayFiles(map[string]string{"history.txt": strings.Join(trail, "\n") + "\n", "step-output.txt": r.String()})
				return m
			}
			if !ref.ok {
				if r.OK() {
					c.Inconclusive("reference build failed but the history step succeeded for " + st.cfg.Name)
				}
				prev = st.cfg.Name
				continue
			}
			if !r.OK() {
				c.Violate("history-build-fails/"+classOfStep(prev, st.cfg.Name), fmt.Sprintf("history %d step %d (%s after %s, edit %q): the build fails on a shared cache although a fresh-cache build of the same config and source succeeds\n%s", hi, si, st.cfg.Name, prev, st.edit, r), files())
				return
			}
			rr := runBin(bin, nil, nil, time.Minute)
			sha := fileSha(bin)
			if !bytes.Equal(rr.Out, ref.out) || rr.RC != ref.rc {
				c.Violate("stale-behaviour/"+classOfStep(prev, st.cfg.Name), fmt.Sprintf("history %d step %d (%s after %s, edit %q): the program prints %q, a fresh-cache build of the same config and source prints %q", hi, si, st.cfg.Name, prev, st.edit, clip(rr.Out, 300), clip(ref.out, 300)), files())
			} else if sha != ref.sha {
				c.Violate("stale-binary/"+classOfStep(prev, st.cfg.Name), fmt.Sprintf("history %d step %d (%s after %s, edit %q): binary sha256 %s differs from the fresh-cache build's %s", hi, si, st.cfg.Name, prev, st.edit, sha[:16], ref.sha[:16]), files())
			}
			// Unchanged rebuild: nothing may be recompiled.
			if si%2 == 1 {
				logDir2 := filepath.Join(root, fmt.Sprintf("log%d-again", si))
				must(os.MkdirAll(logDir2, 0o755))
				r2 := w.garbleBuild(g, box, st.cfg, bin+".again", []string{"GARBLE_VERIF_LOG=" + logDir2}, "-v")
				n2 := 0
				var pkgs []string
				for _, ev := range readEvents(logDir2) {
					if ev.Kind == "toolexec.begin" && (ev.Str("tool") == "compile" || ev.Str("tool") == "asm") && ev.Pkg != "" {
						n2++
						pkgs = append(pkgs, ev.Pkg)
					}
				}
				c.Eval("unchanged-rebuild|" + st.cfg.Name)
				if r2.OK() && n2 > 0 {
					c.Violate("unchanged-rebuild-recompiles", fmt.Sprintf("history %d step %d (%s): rebuilding with nothing changed ran %d compile/asm actions (%v); go build -v printed %q", hi, si, st.cfg.Name, n2, pkgs, clip(r2.Err, 300)), files())
				}
				os.Remove(bin + ".again")
			}
			os.Remove(bin)
			prev = st.cfg.Name
		}
		if hi == 0 {
			c.Sample(map[string]any{"history": trail})
		}
	})
	c.Extra("ordered_config_pairs_covered", len(pairsCovered))
	c.Count("histories", len(histories))
	c.Count("reference_builds", len(refs))
}

// classOfStep keys a failure by the pair of obfuscation classes involved.
func classOfStep(prev, cur string) string {
	strip := func(s string) string {
		for _, suf := range []string{"+X1", "+X2"} {
			if strings.HasSuffix(s, suf) {
				return strings.TrimSuffix(s, suf) + "+X"
			}
		}
		for _, suf := range []string{"+tagsA", "+tagsB"} {
			if strings.HasSuffix(s, suf) {
				return strings.TrimSuffix(s, suf) + "+tags"
			}
		}
		return s
	}
	return strip(prev) + "->" + strip(cur)
}
