package main

import (
	"fmt"
	"math/rand"
	"strings"
)

// ---------------------------------------------------------------------------
// Control-flow function generator (C11). Every function logs its side effects
// with tr(...) so that the order of effects is compared, not only the results.

type cfKind struct {
	name    string
	feature string // class-key component
	// decl renders the function(s); fn is the unique function name, dir the directive line.
	decl  func(fn, dir string, r *rand.Rand) string
	calls func(fn string, r *rand.Rand) []string // statements printing results (each must call flush)
}

const cfPrelude = `package main

import (
	"fmt"
	"sort"
	"strings"
	"sync"
)

var _ = sort.Ints

var _ sync.Mutex

var trace []string

//go:noinline
func tr(s string, v ...any) int {
	trace = append(trace, fmt.Sprint(append([]any{s}, v...)...))
	return len(trace)
}

func flush(label string, res ...any) {
	fmt.Println(label, fmt.Sprint(res...), "|", strings.Join(trace, ";"))
	trace = trace[:0]
}

func call(label string, f func()) {
	defer func() {
		if r := recover(); r != nil {
			flush(label+" PANIC", fmt.Sprint(r))
		}
	}()
	f()
}

type pt struct{ x, y int }

type shaper interface{ area() int }

type sq struct{ s int }

func (q sq) area() int { return q.s * q.s }

type rc struct{ w, h int }

func (q *rc) area() int { return q.w * q.h }

type myErr struct{ code int }

func (e *myErr) Error() string { return fmt.Sprint("myerr", e.code) }
`

func cfKinds() []cfKind {
	ints := func(r *rand.Rand) string {
		return fmt.Sprint(r.Intn(40) - 5)
	}
	return []cfKind{
		{"collatz", "loops-branches", func(fn, dir string, r *rand.Rand) string {
			return dir + `
func ` + fn + `(n int) (steps int, peak int) {
	for n > 1 && steps < 200 {
		if n%2 == 0 {
			n /= 2
		} else if n%3 == 0 {
			n = n*3 + 1
			tr("odd3", n)
		} else {
			n = n*3 + 1
		}
		if n > peak {
			peak = n
		}
		steps++
		if steps%7 == 0 {
			continue
		}
		if peak > 5000 {
			break
		}
	}
	return steps, peak
}
`
		}, func(fn string, r *rand.Rand) []string {
			var out []string
			for _, a := range []string{"1", "7", "27", ints(r), "97"} {
				out = append(out, fmt.Sprintf("s, p := %s(%s); flush(L, s, p)", fn, a))
			}
			return out
		}},
		{"switchy", "switch-fallthrough-labels", func(fn, dir string, r *rand.Rand) string {
			return dir + `
func ` + fn + `(a, b int) int {
	res := 0
outer:
	for i := 0; i < 6; i++ {
		switch {
		case i == a%6:
			res += 100
			fallthrough
		case i == 1:
			res += 10
		case i == b%6:
			res -= 3
			tr("b", i)
			continue outer
		case i == 5:
			break outer
		default:
			res++
		}
		switch v := i * a; v {
		case 0, 2, 4:
			res += v
		case 6:
			goto done
		}
	}
done:
	return res
}
`
		}, func(fn string, r *rand.Rand) []string {
			var out []string
			for i := 0; i < 5; i++ {
				out = append(out, fmt.Sprintf("flush(L, %s(%d, %d))", fn, r.Intn(9), r.Intn(9)))
			}
			return out
		}},
		{"rangeslice", "range-slice-array-int", func(fn, dir string, r *rand.Rand) string {
			return dir + `
func ` + fn + `(xs []int, n int) (sum int, idx int, arr [4]int) {
	for i, x := range xs {
		sum += i * x
		if x < 0 {
			idx = i
		}
	}
	for i := range arr {
		arr[i] = sum + i
	}
	for i := range n {
		sum += i
	}
	for range xs {
		idx++
	}
	for _, v := range arr {
		sum ^= v
	}
	return
}
`
		}, func(fn string, r *rand.Rand) []string {
			return []string{
				fmt.Sprintf("s, i, a := %s(nil, 0); flush(L, s, i, a)", fn),
				fmt.Sprintf("s, i, a := %s([]int{3, -1, 4, 1, -5, 9}, %d); flush(L, s, i, a)", fn, r.Intn(6)),
				fmt.Sprintf("s, i, a := %s([]int{%d}, 3); flush(L, s, i, a)", fn, r.Intn(50)),
			}
		}},
		{"rangestrascii", "range-string-ascii", func(fn, dir string, r *rand.Rand) string {
			return dir + `
func ` + fn + `(s string) (n int, out string) {
	for i, c := range s {
		n += i
		if c >= 'a' && c <= 'z' {
			out += string(c - 32)
		} else {
			out += string(c)
		}
	}
	for i := range s {
		n += i * 2
	}
	return
}
`
		}, func(fn string, r *rand.Rand) []string {
			return []string{
				fmt.Sprintf("n, o := %s(\"\"); flush(L, n, o)", fn),
				fmt.Sprintf("n, o := %s(\"hello, World %d\"); flush(L, n, o)", fn, r.Intn(100)),
			}
		}},
		{"rangestrutf8", "range-string-non-ascii", func(fn, dir string, r *rand.Rand) string {
			return dir + `
func ` + fn + `(s string) (idx []int, runes []rune) {
	for i, c := range s {
		idx = append(idx, i)
		runes = append(runes, c)
	}
	return
}
`
		}, func(fn string, r *rand.Rand) []string {
			return []string{
				fmt.Sprintf("i, c := %s(\"aé世b\"); flush(L, i, c)", fn),
				fmt.Sprintf("i, c := %s(\"\\xffz😀\"); flush(L, i, c)", fn),
			}
		}},
		{"rangemap", "range-map-readonly", func(fn, dir string, r *rand.Rand) string {
			return dir + `
func ` + fn + `(m map[string]int) (sum int, keys []string) {
	for k, v := range m {
		sum += v
		keys = append(keys, k)
	}
	sort.Strings(keys)
	for k := range m {
		sum += len(k)
	}
	return
}
`
		}, func(fn string, r *rand.Rand) []string {
			return []string{
				fmt.Sprintf("s, k := %s(nil); flush(L, s, k)", fn),
				fmt.Sprintf("s, k := %s(map[string]int{\"a\": 1, \"bb\": 2, \"ccc\": 3, \"d\": %d, \"ee\": 5, \"f\": 6, \"gg\": 7, \"h\": 8}); flush(L, s, k)", fn, r.Intn(30)),
			}
		}},
		{"chans", "range-channel-select", func(fn, dir string, r *rand.Rand) string {
			return dir + `
func ` + fn + `(n int) (sum int, sel string) {
	ch := make(chan int, n+1)
	for i := 0; i <= n; i++ {
		ch <- i * i
	}
	close(ch)
	for v := range ch {
		sum += v
	}
	a, b := make(chan int, 1), make(chan string, 1)
	if n%2 == 0 {
		a <- n
	} else {
		b <- "odd"
	}
	select {
	case v := <-a:
		sel = fmt.Sprint("a", v)
	case s := <-b:
		sel = "b" + s
	}
	select {
	case v, ok := <-ch:
		sel += fmt.Sprint(" closed", v, ok)
	default:
		sel += " default"
	}
	return
}
`
		}, func(fn string, r *rand.Rand) []string {
			return []string{
				fmt.Sprintf("s, x := %s(0); flush(L, s, x)", fn),
				fmt.Sprintf("s, x := %s(%d); flush(L, s, x)", fn, 1+r.Intn(9)),
				fmt.Sprintf("s, x := %s(%d); flush(L, s, x)", fn, 10+r.Intn(9)),
			}
		}},
		{"deferorder", "defer-order-args", func(fn, dir string, r *rand.Rand) string {
			return dir + `
func ` + fn + `(n int) int {
	for i := 0; i < n; i++ {
		defer tr("defer", i)
	}
	x := n
	defer func() { tr("closure-sees", x) }()
	x++
	defer func(v int) { tr("argeval", v) }(x)
	x++
	return x
}
`
		}, func(fn string, r *rand.Rand) []string {
			return []string{fmt.Sprintf("flush(L, %s(0))", fn), fmt.Sprintf("flush(L, %s(%d))", fn, 1+r.Intn(4))}
		}},
		{"defernamed", "named-results-modified-by-defer", func(fn, dir string, r *rand.Rand) string {
			return dir + `
func ` + fn + `(n int) (res int) {
	defer func() { res += n * 10 }()
	return n + 1
}
`
		}, func(fn string, r *rand.Rand) []string {
			return []string{fmt.Sprintf("flush(L, %s(%d))", fn, 1+r.Intn(4))}
		}},
		{"recovernamed", "named-results-modified-by-defer", func(fn, dir string, r *rand.Rand) string {
			return dir + `
func ` + fn + `(d int) (q int, err error) {
	defer func() {
		if r := recover(); r != nil {
			q = -1
			err = fmt.Errorf("recovered: %v", r)
		}
	}()
	q = 100 / d
	return q, nil
}
`
		}, func(fn string, r *rand.Rand) []string {
			return []string{fmt.Sprintf("q, e := %s(0); flush(L, q, e)", fn), fmt.Sprintf("q, e := %s(%d); flush(L, q, e)", fn, 1+r.Intn(9))}
		}},
		{"recoverplain", "recover-no-named-results", func(fn, dir string, r *rand.Rand) string {
			return dir + `
func ` + fn + `(xs []int, i int) int {
	got := 0
	func() {
		defer func() {
			if r := recover(); r != nil {
				tr("rec", r)
				got = -7
			}
		}()
		got = xs[i]
	}()
	return got
}
`
		}, func(fn string, r *rand.Rand) []string {
			return []string{fmt.Sprintf("flush(L, %s([]int{1, 2, 3}, 1))", fn), fmt.Sprintf("flush(L, %s([]int{1, 2, 3}, %d))", fn, 3+r.Intn(5))}
		}},
		{"panics", "panic-propagation", func(fn, dir string, r *rand.Rand) string {
			return dir + `
func ` + fn + `(k int) int {
	tr("enter", k)
	defer tr("deferred-runs")
	switch k {
	case 1:
		var p *pt
		return p.x
	case 2:
		panic(&myErr{k})
	case 3:
		var m map[string]int
		m["a"] = 1
	case 4:
		var s shaper
		return s.area()
	case 5:
		panic(fmt.Errorf("custom %d", k))
	}
	return k
}
`
		}, func(fn string, r *rand.Rand) []string {
			var out []string
			for k := 0; k <= 5; k++ {
				out = append(out, fmt.Sprintf("flush(L, %s(%d))", fn, k))
			}
			return out
		}},
		{"closures", "closures-captured", func(fn, dir string, r *rand.Rand) string {
			return dir + `
func ` + fn + `(n int) (int, []int) {
	total := 0
	add := func(d int) { total += d }
	var fs []func() int
	for i := 0; i < n; i++ {
		add(i)
		fs = append(fs, func() int { total++; return i * total })
	}
	var out []int
	for _, f := range fs {
		out = append(out, f())
	}
	counter := func() func() int {
		c := n
		return func() int { c += 2; return c }
	}()
	counter()
	return total + counter(), out
}
`
		}, func(fn string, r *rand.Rand) []string {
			return []string{fmt.Sprintf("t, o := %s(0); flush(L, t, o)", fn), fmt.Sprintf("t, o := %s(%d); flush(L, t, o)", fn, 2+r.Intn(4))}
		}},
		{"multires", "multiple-results-variadic", func(fn, dir string, r *rand.Rand) string {
			return dir + `
func ` + fn + `(sep string, xs ...int) (min, max int, joined string, ok bool) {
	if len(xs) == 0 {
		return 0, 0, "", false
	}
	min, max = xs[0], xs[0]
	parts := make([]string, 0, len(xs))
	for _, x := range xs {
		if x < min {
			min = x
		}
		if x > max {
			max = x
		}
		parts = append(parts, fmt.Sprint(x))
	}
	return min, max, strings.Join(parts, sep), true
}
`
		}, func(fn string, r *rand.Rand) []string {
			return []string{
				fmt.Sprintf("a, b, j, ok := %s(\",\"); flush(L, a, b, j, ok)", fn),
				fmt.Sprintf("a, b, j, ok := %s(\"-\", 5, %d, -2, 9); flush(L, a, b, j, ok)", fn, r.Intn(20)),
				fmt.Sprintf("a, b, j, ok := %s(\"\", []int{4, 4}...); flush(L, a, b, j, ok)", fn),
			}
		}},
		{"methods", "method-receivers", func(fn, dir string, r *rand.Rand) string {
			return `type ` + fn + `T struct {
	n   int
	log []string
}

` + dir + `
func (t *` + fn + `T) ` + fn + `(k int) int {
	for i := 0; i < k; i++ {
		t.n += i
		if t.n%3 == 0 {
			t.log = append(t.log, fmt.Sprint("m", t.n))
		}
	}
	return t.n
}

` + dir + `
func (t ` + fn + `T) ` + fn + `V(k int) int {
	t.n += k // value receiver: the caller must not see this
	return t.n * 2
}
`
		}, func(fn string, r *rand.Rand) []string {
			return []string{
				fmt.Sprintf("t := &%[1]sT{n: %d}; a := t.%[1]s(5); b := t.%[1]sV(3); flush(L, a, b, t.n, t.log)", fn, r.Intn(5)),
			}
		}},
		{"evalorder", "evaluation-order", func(fn, dir string, r *rand.Rand) string {
			return dir + `
func ` + fn + `(a, b int) (int, bool) {
	f := func(n string, v int) int { tr(n, v); return v }
	x := f("1", a) + f("2", b)*f("3", a+b)
	arr := []int{f("i0", 0), f("i1", 1)}
	arr[f("idx", 1)] = f("val", x)
	ok := f("l", a) > 3 && f("r", b) > 3 || f("o", 1) == 1
	m := map[int]int{f("k", 1): f("v", 2)}
	return arr[1] + m[1], ok
}
`
		}, func(fn string, r *rand.Rand) []string {
			return []string{fmt.Sprintf("v, ok := %s(%d, %d); flush(L, v, ok)", fn, r.Intn(8), r.Intn(8)), fmt.Sprintf("v, ok := %s(9, 9); flush(L, v, ok)", fn)}
		}},
		{"phis", "phi-heavy", func(fn, dir string, r *rand.Rand) string {
			return dir + `
func ` + fn + `(n int) (int, int, string) {
	a, b := 0, 1
	s := ""
	for i := 0; i < n; i++ {
		a, b = b, a+b
		if i%2 == 0 {
			s += "e"
			if a > 10 {
				a, b = b, a
			}
		} else {
			s += "o"
		}
		for j := i; j > 0; j /= 2 {
			if j%3 == 0 {
				b++
				continue
			}
			a ^= j
		}
	}
	return a, b, s
}
`
		}, func(fn string, r *rand.Rand) []string {
			return []string{fmt.Sprintf("a, b, s := %s(0); flush(L, a, b, s)", fn), fmt.Sprintf("a, b, s := %s(%d); flush(L, a, b, s)", fn, 3+r.Intn(12))}
		}},
		{"arith", "integer-float-ops", func(fn, dir string, r *rand.Rand) string {
			return dir + `
func ` + fn + `(a int32, b uint8, f float64) (int32, uint8, int, string) {
	x := a*a*a + int32(b)<<7
	y := b*3 + 200
	z := int(a) / (int(b)%7 + 1)
	w := -int(a) % 5
	g := f*1.5 - float64(z)/3
	var u uint16 = uint16(a) >> 3
	return x ^ int32(u), y &^ 5, z + w, fmt.Sprintf("%.3f", g)
}
`
		}, func(fn string, r *rand.Rand) []string {
			return []string{
				fmt.Sprintf("a, b, c, d := %s(%d, %d, 2.25); flush(L, a, b, c, d)", fn, r.Intn(100000), r.Intn(256)),
				fmt.Sprintf("a, b, c, d := %s(-2147483647, 255, -0.5); flush(L, a, b, c, d)", fn),
			}
		}},
		{"typeswitch", "type-switch-assert", func(fn, dir string, r *rand.Rand) string {
			return dir + `
func ` + fn + `(vs ...any) (out []string) {
	for _, v := range vs {
		switch x := v.(type) {
		case nil:
			out = append(out, "nil")
		case int:
			out = append(out, fmt.Sprint("int", x+1))
		case shaper:
			out = append(out, fmt.Sprint("shape", x.area()))
		case error:
			out = append(out, "err:"+x.Error())
		case []int:
			out = append(out, fmt.Sprint("slice", len(x)))
		default:
			if s, ok := v.(fmt.Stringer); ok {
				out = append(out, s.String())
			} else {
				out = append(out, "other")
			}
		}
	}
	return
}
`
		}, func(fn string, r *rand.Rand) []string {
			return []string{fmt.Sprintf("flush(L, %s(nil, %d, sq{3}, &rc{2, 5}, &myErr{4}, []int{1}, 2.5, \"s\"))", fn, r.Intn(50))}
		}},
		{"structs", "struct-array-copy-alias", func(fn, dir string, r *rand.Rand) string {
			return dir + `
func ` + fn + `(k int) (pt, [3]int, []int, int) {
	p := pt{k, k + 1}
	q := p
	q.x += 10
	pp := &p
	pp.y *= 2
	arr := [3]int{1, 2, 3}
	cp := arr
	cp[0] = k
	s := arr[:2]
	s = append(s, 99) // writes into arr[2]
	s2 := append(s, 100)
	s2[0] = -1
	return p, arr, s, q.x + cp[0] + len(s2)
}
`
		}, func(fn string, r *rand.Rand) []string {
			return []string{fmt.Sprintf("a, b, c, d := %s(%d); flush(L, a, b, c, d)", fn, r.Intn(20))}
		}},
		{"generic", "generics", func(fn, dir string, r *rand.Rand) string {
			return dir + `
func ` + fn + `[T int | string](xs []T, pick func(a, b T) bool) (best T, n int) {
	for i, x := range xs {
		if i == 0 || pick(x, best) {
			best = x
			n++
		}
	}
	return
}
`
		}, func(fn string, r *rand.Rand) []string {
			return []string{
				fmt.Sprintf("b, n := %s([]int{3, 9, %d, 7}, func(a, b int) bool { return a > b }); flush(L, b, n)", fn, r.Intn(20)),
				fmt.Sprintf("b, n := %s([]string{\"b\", \"a\", \"c\"}, func(a, b string) bool { return a < b }); flush(L, b, n)", fn),
			}
		}},
		{"strbytes", "string-byte-ops", func(fn, dir string, r *rand.Rand) string {
			return dir + `
func ` + fn + `(s string, k byte) (string, int) {
	b := []byte(s)
	for i := 0; i < len(b)/2; i++ {
		b[i], b[len(b)-1-i] = b[len(b)-1-i]^k, b[i]^k
	}
	h := 0
	for _, c := range b {
		h = h*31 + int(c)
	}
	var sb strings.Builder
	for i := 0; i < len(s); i += 2 {
		sb.WriteByte(s[i])
	}
	if strings.Contains(s, "ab") {
		sb.WriteString("!")
	}
	return sb.String(), h
}
`
		}, func(fn string, r *rand.Rand) []string {
			return []string{fmt.Sprintf("a, b := %s(\"\", 1); flush(L, a, b)", fn), fmt.Sprintf("a, b := %s(\"abcdefghij%d\", %d); flush(L, a, b)", fn, r.Intn(100), r.Intn(255))}
		}},
		{"mapsum", "map-sum-loop", func(fn, dir string, r *rand.Rand) string {
			return dir + `
func ` + fn + `(n int) int {
	m := map[int]int{}
	for i := 0; i < n; i++ {
		m[i] = i%5 + 1
	}
	sum := 0
	for _, v := range m {
		sum += v
	}
	for k := range m {
		sum += k
	}
	return sum
}
`
		}, func(fn string, r *rand.Rand) []string {
			return []string{fmt.Sprintf("flush(L, %s(0))", fn), fmt.Sprintf("flush(L, %s(14))", fn), fmt.Sprintf("flush(L, %s(%d))", fn, 20+r.Intn(30))}
		}},
	}
}

type cfParams struct {
	Splits, Junk, Passes, Trash string
	Hardening                   string
}

func (p cfParams) directive() string {
	var parts []string
	add := func(k, v string) {
		if v != "" {
			parts = append(parts, k+"="+v)
		}
	}
	add("block_splits", p.Splits)
	add("junk_jumps", p.Junk)
	add("flatten_passes", p.Passes)
	add("flatten_hardening", p.Hardening)
	add("trash_blocks", p.Trash)
	return "//garble:controlflow " + strings.Join(parts, " ")
}

func (p cfParams) key() string {
	return fmt.Sprintf("s%s/j%s/p%s/h%s/t%s", p.Splits, p.Junk, p.Passes, p.Hardening, p.Trash)
}

func randCFParams(r *rand.Rand, allowTrash bool) cfParams {
	pick := func(xs ...string) string { return xs[r.Intn(len(xs))] }
	p := cfParams{
		Splits:    pick("", "0", "1", "3", "8", "max"),
		Junk:      pick("", "0", "1", "4", "16", "64"),
		Passes:    pick("", "1", "1", "2", "2", "3"),
		Hardening: pick("", "", "xor", "delegate_table", "xor,delegate_table"),
		Trash:     pick("", "0"),
	}
	if allowTrash {
		p.Trash = pick("", "0", "1", "4", "32")
	}
	// keep the exponential corner bounded
	if p.Passes == "3" && (p.Splits == "max" || p.Junk == "64") {
		p.Junk, p.Splits = "4", "3"
	}
	return p
}

type CFFunc struct {
	Name    string
	Kind    string
	Feature string
	Params  cfParams
}

type CFProg struct {
	Prog  *Prog
	Funcs []CFFunc
}

// genCFProg builds a program with nfuncs control-flow obfuscated functions.
// genCFProgPick is genCFProg restricted to the named kinds, still drawing them at random.
func genCFProgPick(r *rand.Rand, nfuncs int, exclude map[string]bool, names []string, allowTrash bool, fixed *cfParams) *CFProg {
	ex := map[string]bool{}
	for k, v := range exclude {
		ex[k] = v
	}
	keep := map[string]bool{}
	for _, n := range names {
		keep[n] = true
	}
	for _, k := range append(cfKinds(), cfKinds2()...) {
		if !keep[k.name] {
			ex[k.feature] = true
		}
	}
	return genCFProg(r, nfuncs, ex, nil, allowTrash, fixed)
}

func genCFProg(r *rand.Rand, nfuncs int, exclude map[string]bool, only []string, allowTrash bool, fixed *cfParams) *CFProg {
	kinds := append(cfKinds(), cfKinds2()...)
	var pool []cfKind
	for _, k := range kinds {
		if exclude[k.feature] {
			continue
		}
		if only != nil {
			ok := false
			for _, o := range only {
				if o == k.name || o == k.feature {
					ok = true
				}
			}
			if !ok {
				continue
			}
		}
		pool = append(pool, k)
	}
	var src, mainBody strings.Builder
	src.WriteString(cfPrelude)
	cp := &CFProg{}
	for i := 0; i < nfuncs; i++ {
		k := pool[(i+r.Intn(len(pool)))%len(pool)]
		if only != nil {
			k = pool[i%len(pool)]
		}
		fn := fmt.Sprintf("zqcf%d%s", i, k.name)
		params := randCFParams(r, allowTrash)
		if fixed != nil {
			params = *fixed
		}
		src.WriteString("\n" + k.decl(fn, params.directive(), r))
		for ci, st := range k.calls(fn, r) {
			label := fmt.Sprintf("%s#%d", fn, ci)
			fmt.Fprintf(&mainBody, "\tcall(%q, func() { const L = %q; %s })\n", label, label, st)
		}
		cp.Funcs = append(cp.Funcs, CFFunc{Name: fn, Kind: k.name, Feature: k.feature, Params: params})
	}
	src.WriteString("\nfunc main() {\n" + mainBody.String() + "}\n")
	mod := "zqcf" + randLower(r, 5) + ".example.com/cf"
	cp.Prog = &Prog{Module: mod, Files: map[string]string{"go.mod": "module " + mod + "\n\ngo 1.26\n", "main.go": src.String()}}
	return cp
}
