package main

import (
	"bytes"
	"fmt"
	"os"
	"path/filepath"
	"slices"
	"strings"
	"sync"
	"time"
)

func init() { register("C01", "exploration", checkC01) }

// genPrograms generates n programs deterministically from (seed, label).
func genPrograms(c *Ctx, label string, n int, opt GenOpts) []*Prog {
	out := make([]*Prog, n)
	for i := range out {
		out[i] = generate(subRand(c.Seed, label, c.Tier, i), opt)
	}
	return out
}

// plainReference builds w with the regular toolchain; a failure is a generator
// bug (never a verdict) and is reported as inconclusive.
func plainReference(c *Ctx, w *Work, out string, stripped bool) bool {
	r := w.plainBuild(out, stripped)
	if !r.OK() {
		c.Count("generator.plain_build_rejected", 1)
		c.Inconclusive("generator bug: the regular toolchain rejects a generated program (features " + strings.Join(w.Prog.Features, ",") + "):\n" + r.String())
		if os.Getenv("VERIF_KEEP") != "" {
			fmt.Fprintf(os.Stderr, "kept: %s\n", w.Dir)
		}
		return false
	}
	return true
}

func checkC01(c *Ctx) {
	c.SetRule("programs are composed from feature modules (structs, embedding incl. embedded alias of a generic struct from another package, aliases, generics, interfaces with unexported methods, " +
		"closures, type switches, labels/goto, method values/expressions, cross-package struct conversions, dot/named/blank imports, import paths with dots, package name != directory, amd64 assembly with go_asm.h names, " +
		"//go:linkname pulls incl. methods, init chains, -ldflags=-X on main and library vars, internal/external tests with TestMain, //go:embed of string/[]byte/embed.FS, standard-library generics and iterators over program types, generic aliases and recursive generic types, files selected by GOOS/GOARCH suffixes and //go:build lines, unsafe.Offsetof/Sizeof constants and layout casts, anonymous struct types in every position with tags, stringer-style enums, cgo) spread over 3-5 packages; each is built by the regular toolchain (precondition) and by garble under each config; " +
		"stdout and exit status are compared on several argument vectors; `test` compares verdict lines, `run` compares stdout+status. " +
		"distinct_nontrivial = distinct (feature-set, config, subcommand) cases whose obfuscated binary lost >=1 marker identifier that the regular binary contains.")
	c.Assume("generated programs never print identifier names, positions, build metadata, map order or addresses", "only linux/amd64 binaries are executed")
	g := buildGarble("", false)
	cfgs := []Config{K0, K5}
	nprog, ntest, nrun, nargv := 14, 3, 2, 3
	if !c.Quick() {
		cfgs = []Config{K0, K1, K2, K3, K4, K5}
		nprog, ntest, nrun, nargv = 100, 24, 16, 6
	}
	pool := warmPool(g, false, cfgs...)
	progs := genPrograms(c, "c01", nprog, GenOpts{})
	for i := range progs {
		// every fifth program also has a package that imports "C" (never picked at random)
		if i%5 == 4 {
			progs[i] = generate(subRand(c.Seed, "c01", c.Tier, i), GenOpts{Extra: []string{"cgo"}})
		}
	}
	featCount := map[string]int{}
	var fmu sync.Mutex

	parallel(len(progs), 8, func(i int) {
		p := progs[i]
		w := materialize(p, fmt.Sprintf("c01p%d", i))
		defer w.cleanup()
		plainBin := filepath.Join(w.Root, "plain.bin")
		if !plainReference(c, w, plainBin, false) {
			return
		}
		plainData, _ := os.ReadFile(plainBin)
		inPlain := markersIn(plainData, p.Markers)
		// Reference runs.
		type ref struct{ out []byte; rc int }
		refs := make([]ref, nargv)
		for a := 0; a < nargv; a++ {
			r := runBin(plainBin, argvSets[a], nil, 0)
			if r.TimedOut {
				c.Inconclusive("reference run timed out")
				return
			}
			refs[a] = ref{r.Out, r.RC}
		}
		fmu.Lock()
		for _, f := range p.Features {
			featCount[f]++
		}
		fmu.Unlock()
		if i == 0 {
			c.Sample(map[string]any{"features": p.Features, "packages": p.Pkgs, "ldflagsX": p.LdX, "files": sortedKeys(p.Files), "reference_stdout_argv0": clip(refs[0].out, 1500)})
		}
		featKey := strings.Join(p.Features, "+")
		for _, cfg := range cfgs {
			box := pool.Box(filepath.Join(w.Root, "tmp-"+cfg.Name))
			bin := filepath.Join(w.Root, "garbled-"+cfg.Name+".bin")
			r := w.garbleBuild(g, box, cfg, bin, nil)
			if r.TimedOut {
				c.Inconclusive("garble build watchdog fired")
				continue
			}
			if !r.OK() {
				c.Eval("")
				c.Violate("build-fails/"+failingFeature(p, r), fmt.Sprintf("garble %v build fails on a program the regular toolchain builds (features %s)\n%s", cfg.GFlags, featKey, r),
					w.replayFiles(map[string]string{"config.txt": cfg.Key(), "garble-output.txt": r.String()}))
				continue
			}
			gdata, _ := os.ReadFile(bin)
			inG := markersIn(gdata, p.Markers)
			lost := 0
			for m := range inPlain {
				if !inG[m] {
					lost++
				}
			}
			for a := 0; a < nargv; a++ {
				rr := runBin(bin, argvSets[a], nil, 0)
				sig := ""
				if lost > 0 {
					sig = fmt.Sprintf("build|%s|%s", featKey, cfg.Name)
				}
				c.Eval(sig)
				if rr.TimedOut {
					c.Violate("behaviour/hang", fmt.Sprintf("obfuscated program (%s) did not finish within the watchdog on args %q", cfg.Name, argvSets[a]), w.replayFiles(map[string]string{"config.txt": cfg.Key()}))
					continue
				}
				if !bytes.Equal(rr.Out, refs[a].out) || rr.RC != refs[a].rc {
					c.Violate("behaviour/"+firstDiffFeature(refs[a].out, rr.Out), fmt.Sprintf("obfuscated program (%s) behaves differently on args %q (features %s): rc %d vs %d", cfg.Name, argvSets[a], featKey, rr.RC, refs[a].rc),
						w.replayFiles(map[string]string{"config.txt": cfg.Key(), "plain.txt": describeRun("plain", argvSets[a], Res{RC: refs[a].rc, Out: refs[a].out}), "garbled.txt": describeRun("garbled", argvSets[a], rr)}))
				}
			}
		}
	})

	// `garble test` versus `go test`.
	tprogs := genPrograms(c, "c01test", ntest, GenOpts{Features: nil, MinFeats: 3, MaxFeats: 6})
	for i := range tprogs {
		// force the tests feature in
		r := subRand(c.Seed, "c01test", c.Tier, i)
		feats := pickWith(r, "tests", 4)
		if i%2 == 0 {
			// a dependant of the package under test that is recompiled for the test binary
			feats = append(feats, "testdeps")
		}
		tprogs[i] = generate(r, GenOpts{Features: feats})
	}
	tcfgs := []Config{K0}
	if !c.Quick() {
		tcfgs = []Config{K0, K5}
	}
	tpool := warmPool(g, true, tcfgs...)
	parallel(len(tprogs), 4, func(i int) {
		p := tprogs[i]
		w := materialize(p, fmt.Sprintf("c01t%d", i))
		defer w.cleanup()
		args := []string{"test", "-trimpath", "-count=1", "-v"}
		if ld := p.ldflags(); ld != "" {
			args = append(args, ld)
		}
		args = append(args, "./...")
		ref := Run(Cmd{Dir: w.Dir, Env: plainEnv(), Argv: append([]string{"go"}, args...), Timeout: 15 * time.Minute})
		if ref.TimedOut || (ref.RC != 0 && !bytes.Contains(ref.Out, []byte("--- "))) {
			c.Inconclusive("generator bug or watchdog: go test failed before running tests:\n" + ref.String())
			return
		}
		want := testVerdicts(ref.Out)
		for _, cfg := range tcfgs {
			box := tpool.Box(filepath.Join(w.Root, "tmp-"+cfg.Name))
			r := box.Garble(g, cfg, w.Dir, 20*time.Minute, nil, "test", args[1:]...)
			c.Eval(fmt.Sprintf("test|%s|%s", strings.Join(p.Features, "+"), cfg.Name))
			if r.TimedOut {
				c.Inconclusive("garble test watchdog fired")
				continue
			}
			got := testVerdicts(r.Out)
			if r.RC != ref.RC || !slices.Equal(got, want) {
				c.Violate("test/verdicts", fmt.Sprintf("garble %v test verdicts differ from go test (rc %d vs %d)", cfg.GFlags, r.RC, ref.RC),
					w.replayFiles(map[string]string{"config.txt": cfg.Key(), "go-test.txt": ref.String(), "garble-test.txt": r.String()}))
			}
		}
	})

	// `garble run` versus `go run`.
	rprogs := genPrograms(c, "c01run", nrun, GenOpts{NoTests: true, MinFeats: 3, MaxFeats: 6})
	parallel(len(rprogs), 4, func(i int) {
		p := rprogs[i]
		w := materialize(p, fmt.Sprintf("c01r%d", i))
		defer w.cleanup()
		cfg := cfgs[i%len(cfgs)]
		var pre []string
		if ld := p.ldflags(); ld != "" {
			pre = append(pre, ld)
		}
		uargs := append(append([]string{}, pre...), ".")
		uargs = append(uargs, argvSets[2]...)
		ref := Run(Cmd{Dir: w.Dir, Env: plainEnv(), Argv: append([]string{"go", "run", "-trimpath"}, uargs...), Timeout: 10 * time.Minute})
		if !ref.OK() {
			c.Inconclusive("generator bug or watchdog: go run failed:\n" + ref.String())
			return
		}
		box := pool.Box(filepath.Join(w.Root, "tmp-run"))
		r := box.Garble(g, cfg, w.Dir, 15*time.Minute, nil, "run", uargs...)
		c.Eval(fmt.Sprintf("run|%s|%s", strings.Join(p.Features, "+"), cfg.Name))
		if r.TimedOut {
			c.Inconclusive("garble run watchdog fired")
			return
		}
		if r.RC != ref.RC || !bytes.Equal(r.Out, ref.Out) {
			c.Violate("run/output", fmt.Sprintf("garble %v run differs from go run (rc %d vs %d)", cfg.GFlags, r.RC, ref.RC),
				w.replayFiles(map[string]string{"config.txt": cfg.Key(), "go-run.txt": ref.String(), "garble-run.txt": r.String()}))
		}
	})
	c.Extra("feature_counts", featCount)
	c.Extra("configs", func() []string {
		var s []string
		for _, k := range cfgs {
			s = append(s, k.Key())
		}
		return s
	}())
}

// pickWith returns a feature list containing must plus n random others.
func pickWith(r interface{ Intn(int) int }, must string, n int) []string {
	set := map[string]bool{must: true}
	for len(set) < n+1 {
		set[featureOrder[r.Intn(len(featureOrder))]] = true
	}
	return sortedKeys(set)
}

// failingFeature guesses which feature a build error belongs to from the file
// names in the error text (used only to form a stable class key).
func failingFeature(p *Prog, r Res) string {
	text := string(r.Err) + string(r.Out)
	roles := []string{"embedfs", "stdgenuse", "stdgen", "genbase", "genalias", "plat_linux", "plat_amd64", "tagon", "tagcommon", "unsafeops", "anonuse", "anon", "stringer", "cgo", "structs", "embed", "aliasbase", "alias", "generics", "ifacea", "ifaceb", "iface", "closures", "tswitch", "labels", "methvals", "convp", "convq", "conv", "registry", "sideeffect", "imports", "asmdecl", "stub", "asm", "lnimpl", "lnpull", "linkname", "init", "ldx", "consts", "maps", "gor", "errs", "tested", "tdbase", "tddep", "methparam", "_test"}
	for _, role := range roles {
		if strings.Contains(text, role+".go") || strings.Contains(text, role+"_amd64.s") {
			return role
		}
	}
	return "unknown"
}

// firstDiffFeature returns the first word of the first differing output line
// (every feature prefixes its lines with its name).
func firstDiffFeature(want, got []byte) string {
	wl, gl := lines(want), lines(got)
	for i := 0; i < len(wl) || i < len(gl); i++ {
		var a, b string
		if i < len(wl) {
			a = wl[i]
		}
		if i < len(gl) {
			b = gl[i]
		}
		if a != b {
			f := strings.Fields(a + " " + b)
			if len(f) > 0 {
				return f[0]
			}
			break
		}
	}
	return "exit-status"
}
