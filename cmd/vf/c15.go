package main

import (
	"bytes"
	"fmt"
	"math/rand"
	"path/filepath"
	"strings"
	"time"
)

func init() { register("C15", "exploration", checkC15) }

type pairField struct {
	name     string
	typ      string // type text (valid in every package: qualifies the shared package as zqpc)
	embedded bool
	set      string // statement template, %[1]s = value var, %[2]s = n expression
	show     string // expression template printing a basic value, %[1]s = value var
}

type StructPair struct {
	K      int
	DeclA  string // named | generic
	DeclB  string // named | aliasanon | named3 (third package)
	Fields []pairField
	Tags   bool // the two declarations carry different tags
	Key    string
}

func genPairFields(r *rand.Rand, k int, generic bool) []pairField {
	n := 1 + r.Intn(6)
	var fs []pairField
	menu := []func(name string) pairField{
		func(nm string) pairField { return pairField{nm, "int", false, "%[1]s." + nm + " = %[2]s", "%[1]s." + nm} },
		func(nm string) pairField {
			return pairField{nm, "string", false, "%[1]s." + nm + " = fmt.Sprint(\"s\", %[2]s)", "%[1]s." + nm}
		},
		func(nm string) pairField {
			return pairField{nm, "[]int", false, "%[1]s." + nm + " = make([]int, %[2]s%%5)", "len(%[1]s." + nm + ")"}
		},
		func(nm string) pairField { return pairField{nm, "*int", false, "%[1]s." + nm + " = nil", "%[1]s." + nm + " == nil"} },
		func(nm string) pairField {
			return pairField{nm, "map[string]int", false, "%[1]s." + nm + " = map[string]int{\"k\": %[2]s}", "%[1]s." + nm + "[\"k\"]"}
		},
		func(nm string) pairField {
			return pairField{nm, "[2]string", false, "%[1]s." + nm + " = [2]string{\"x\", fmt.Sprint(%[2]s)}", "%[1]s." + nm + "[1]"}
		},
		func(nm string) pairField {
			return pairField{nm, "zqpc.ZqElem", false, "%[1]s." + nm + " = zqpc.ZqElem{ZqV: %[2]s}", "%[1]s." + nm + ".ZqV"}
		},
		func(nm string) pairField {
			return pairField{nm, "struct {\n\t\t" + nm + "In1 int\n\t\t" + nm + "In2 string\n\t}", false, "%[1]s." + nm + "." + nm + "In1 = %[2]s", "%[1]s." + nm + "." + nm + "In1"}
		},
		func(nm string) pairField {
			return pairField{nm, "func(int) int", false, "%[1]s." + nm + " = nil", "%[1]s." + nm + " == nil"}
		},
		func(nm string) pairField {
			return pairField{nm, "*zqpc.ZqElem", false, "%[1]s." + nm + " = &zqpc.ZqElem{ZqV: %[2]s + 1}", "zqpc.ZqVal(%[1]s." + nm + ")"}
		},
	}
	usedEmbed := false
	for i := 0; i < n; i++ {
		nm := fmt.Sprintf("ZqP%dF%d%s", k, i, randAlnum(r, 4))
		if i == 0 && generic {
			// the first field has the type parameter's type; the type argument is any of the menu's
			// types, including unnamed composite ones ([]int, *T, map, array, struct)
			fs = append(fs, menu[r.Intn(len(menu))](nm))
			continue
		}
		if !usedEmbed && r.Intn(5) == 0 {
			usedEmbed = true
			fs = append(fs, pairField{"ZqElem", "zqpc.ZqElem", true, "%[1]s.ZqElem = zqpc.ZqElem{ZqV: %[2]s * 2}", "%[1]s.ZqV"})
			continue
		}
		fs = append(fs, menu[r.Intn(len(menu))](nm))
	}
	return fs
}

func structBody(fs []pairField, tagSalt string, firstTypeParam bool) string {
	var sb strings.Builder
	sb.WriteString("struct {\n")
	for i, f := range fs {
		typ := f.typ
		if i == 0 && firstTypeParam {
			typ = "T"
		}
		tag := ""
		if tagSalt != "" {
			tag = fmt.Sprintf(" `json:\"%s%d\"`", tagSalt, i)
		}
		if f.embedded {
			fmt.Fprintf(&sb, "\t%s%s\n", typ, tag)
		} else {
			fmt.Fprintf(&sb, "\t%s %s%s\n", f.name, typ, tag)
		}
	}
	sb.WriteString("}")
	return sb.String()
}

func genPairProg(r *rand.Rand, npairs int) (*Prog, []StructPair) {
	mod := "zqpair" + randLower(r, 5) + ".example.com/sp"
	var pa, pb, pd, mainDecl, mainBody strings.Builder
	var pairs []StructPair
	for k := 0; k < npairs; k++ {
		sp := StructPair{K: k}
		sp.DeclA = []string{"named", "named", "generic"}[r.Intn(3)]
		sp.DeclB = []string{"named", "aliasanon", "named3"}[r.Intn(3)]
		sp.Tags = r.Intn(2) == 0
		sp.Fields = genPairFields(r, k, sp.DeclA == "generic")
		ta, tb := fmt.Sprintf("ZqA%d", k), fmt.Sprintf("ZqB%d", k)
		tagA, tagB := "", ""
		if sp.Tags {
			tagA, tagB = "a", "b"
		}
		if sp.DeclB == "aliasanon" {
			tagB = tagA // an alias of an anonymous struct is used with assignments below: identity includes tags
		}
		// package A
		typeA := ta
		if sp.DeclA == "generic" {
			fmt.Fprintf(&pa, "type %s[T any] %s\n\n", ta, structBody(sp.Fields, tagA, true))
			typeA = ta + "[" + sp.Fields[0].typ + "]" // the type argument may be a composite type
		} else {
			fmt.Fprintf(&pa, "type %s %s\n\n", ta, structBody(sp.Fields, tagA, false))
		}
		fmt.Fprintf(&pa, "//go:noinline\nfunc ZqMk%d(n int) %s {\n\tvar a %s\n", k, typeA, typeA)
		for i, f := range sp.Fields {
			fmt.Fprintf(&pa, "\t"+f.set+"\n", "a", fmt.Sprintf("(n + %d)", i))
		}
		fmt.Fprintf(&pa, "\treturn a\n}\n\n")
		// package B (or D)
		dst := &pb
		qb := "zqpb."
		if sp.DeclB == "named3" {
			dst, qb = &pd, "zqpd."
		}
		if sp.DeclB == "aliasanon" {
			fmt.Fprintf(dst, "type %s = %s\n\n", tb, structBody(sp.Fields, tagB, false))
		} else {
			fmt.Fprintf(dst, "type %s %s\n\n", tb, structBody(sp.Fields, tagB, false))
		}
		var shows []string
		for _, f := range sp.Fields {
			shows = append(shows, fmt.Sprintf(f.show, "b"))
		}
		fmt.Fprintf(dst, "//go:noinline\nfunc ZqShow%d(b %s) string {\n\treturn fmt.Sprint(%s)\n}\n\n", k, tb, strings.Join(shows, ", \"|\", "))
		// main: use sites
		anonType := structBody(sp.Fields, "", false)
		anonType = strings.ReplaceAll(anonType, "\n", "\n\t")
		f0 := sp.Fields[0]
		fmt.Fprintf(&mainBody, "\t{\n\t\ta := zqpa.ZqMk%d(len(args) + %d)\n", k, k+1)
		fmt.Fprintf(&mainBody, "\t\tb := %s%s(a) // conversion between identical struct types of two packages\n", qb, tb)
		fmt.Fprintf(&mainBody, "\t\tanon := %s(a) // conversion to an anonymous struct type\n", anonType)
		fmt.Fprintf(&mainBody, "\t\t"+f0.set+"\n", "anon", "(len(args) + 40)")
		fmt.Fprintf(&mainBody, "\t\ta2 := zqpa.%s(anon)\n", strings.Replace(typeA, "ZqA", "ZqA", 1))
		if !sp.Tags || sp.DeclB == "aliasanon" {
			if sp.DeclB == "aliasanon" && tagB == "" {
				// identical types (no tags): plain assignment is legal
				fmt.Fprintf(&mainBody, "\t\tvar b2 %s%s = anon // assignment, identical types\n\t\tb = b2\n", qb, tb)
			}
		}
		fmt.Fprintf(&mainBody, "\t\tvar lit %s%s\n", qb, tb)
		fmt.Fprintf(&mainBody, "\t\t"+f0.set+"\n", "lit", "7")
		fmt.Fprintf(&mainBody, "\t\tfmt.Println(\"pair%d\", %sZqShow%d(b), %sZqShow%d(%s%s(a2)), %sZqShow%d(lit), %s)\n\t}\n", k, qb, k, qb, k, qb, tb, qb, k, fmt.Sprintf(f0.show, "anon"))
		sp.Key = fmt.Sprintf("%s-%s/tags=%v", sp.DeclA, sp.DeclB, sp.Tags)
		pairs = append(pairs, sp)
	}
	hdr := func(pkg string) string {
		return "package " + pkg + "\n\nimport (\n\t\"fmt\"\n\n\t\"" + mod + "/zqpc\"\n)\n\nvar _ = fmt.Sprint\nvar _ zqpc.ZqElem\n\n"
	}
	files := map[string]string{
		"go.mod":      "module " + mod + "\n\ngo 1.26\n",
		"zqpc/pc.go":  "package zqpc\n\ntype ZqElem struct{ ZqV int }\n\nfunc ZqVal(p *ZqElem) int {\n\tif p == nil {\n\t\treturn -1\n\t}\n\treturn p.ZqV\n}\n",
		"zqpa/pa.go":  hdr("zqpa") + pa.String(),
		"zqpb/pb.go":  hdr("zqpb") + pb.String(),
		"zqpd/pd.go":  hdr("zqpd") + pd.String(),
		"main.go": "package main\n\nimport (\n\t\"fmt\"\n\t\"os\"\n\n\t\"" + mod + "/zqpa\"\n\t\"" + mod + "/zqpb\"\n\t\"" + mod + "/zqpc\"\n\t\"" + mod + "/zqpd\"\n)\n\nvar _ zqpc.ZqElem\nvar _ = zqpb.ZqKeepB\nvar _ = zqpd.ZqKeepD\n\n" +
			mainDecl.String() + "func main() {\n\targs := os.Args[1:]\n" + mainBody.String() + "}\n",
	}
	files["zqpb/pb.go"] += "\nvar ZqKeepB = 1\n"
	files["zqpd/pd.go"] += "\nvar ZqKeepD = 1\n"
	return &Prog{Module: mod, Files: files}, pairs
}

func checkC15(c *Ctx) {
	c.SetRule("programs with 6 struct-type pairs each: 1-6 fields of types {int, string, []int, *int, map, array, named struct of a third package, nested anonymous struct, func, pointer to named, type parameter}, optional embedded field, " +
		"declared as named / generic-instantiated in package A and as named / alias-of-anonymous in package B or C, with or without differing tags; use sites in main: cross-package conversion, conversion to and from an anonymous struct type, " +
		"assignment between identical types, composite values, field selection and promoted fields. Oracle: garble build succeeds and the program prints what the regular build prints. " +
		"distinct_nontrivial = distinct (declaration forms, tags, field-type multiset, config) pairs.")
	c.Assume("every package is inside GOGARBLE (cross-partition struct identity is C14's subject)")
	g := buildGarble("", false)
	cfgs := []Config{K0, K3}
	nprog := 5
	if !c.Quick() {
		cfgs = []Config{K0, K1, K3, K5}
		nprog = 70
	}
	pool := warmPool(g, false, cfgs...)
	parallel(nprog, 8, func(i int) {
		p, pairs := genPairProg(subRand(c.Seed, "c15", c.Tier, i), 6)
		w := materialize(p, fmt.Sprintf("c15p%d", i))
		defer w.cleanup()
		pbin := filepath.Join(w.Root, "plain.bin")
		if !plainReference(c, w, pbin, false) {
			return
		}
		pr := runBin(pbin, []string{"a"}, nil, time.Minute)
		if !pr.OK() {
			c.Inconclusive("generator bug: struct-pair program fails when built regularly:\n" + pr.String())
			return
		}
		if i == 0 {
			c.Sample(map[string]any{"pair": pairs[0].Key, "fields": func() []string {
				var s []string
				for _, f := range pairs[0].Fields {
					s = append(s, f.name+" "+strings.Join(strings.Fields(f.typ), " "))
				}
				return s
			}(), "regular_output": clip(pr.Out, 600)})
		}
		for _, cfg := range cfgs {
			gbin := filepath.Join(w.Root, "g-"+cfg.Name+".bin")
			gr := w.garbleBuild(g, pool.Box(filepath.Join(w.Root, "tmp")), cfg, gbin, nil)
			if gr.TimedOut {
				c.Inconclusive("garble build watchdog fired")
				continue
			}
			for _, sp := range pairs {
				var types []string
				for _, f := range sp.Fields {
					types = append(types, strings.Join(strings.Fields(f.typ), ""))
				}
				c.Eval(fmt.Sprintf("%s|%s|%s", sp.Key, strings.Join(types, ","), cfg.Name))
			}
			if !gr.OK() {
				c.Violate("build-fails/"+pairKeyFromError(pairs, string(gr.Err)), fmt.Sprintf("garble %v build fails on a well-typed struct-pair program\n%s", cfg.GFlags, gr), w.replayFiles(map[string]string{"config.txt": cfg.Key()}))
				continue
			}
			or := runBin(gbin, []string{"a"}, nil, time.Minute)
			if !bytes.Equal(or.Out, pr.Out) || or.RC != pr.RC {
				c.Violate("behaviour/"+firstDiffFeature(pr.Out, or.Out), fmt.Sprintf("%s: struct-pair program prints different values (rc %d vs %d)", cfg.Name, or.RC, pr.RC),
					w.replayFiles(map[string]string{"config.txt": cfg.Key(), "regular.txt": string(pr.Out), "garbled.txt": string(or.Out) + string(or.Err)}))
			}
		}
	})
}

// pairKeyFromError guesses the failing pair from the first "ZqA<k>"/"ZqB<k>"/"ZqP<k>F" in the error text.
func pairKeyFromError(pairs []StructPair, text string) string {
	for _, sp := range pairs {
		for _, needle := range []string{fmt.Sprintf("ZqP%dF", sp.K)} {
			if strings.Contains(text, needle) {
				return sp.Key
			}
		}
	}
	return "unknown"
}
