package main

import (
	"fmt"
	"math/rand"
	"os"
	"path/filepath"
	"sort"
	"strings"
	"sync"
	"time"
)

func init() { register("C03", "exploration", checkC03) }

// cacheListing returns all regular files of both caches of a box.
func cacheListing(b *Box) map[string]bool {
	m := map[string]bool{}
	for _, root := range []string{b.GoCache, b.GarbleCache} {
		for _, f := range listFiles(root) {
			m[filepath.Join(root, f)] = true
		}
	}
	return m
}

// newCacheEntries lists files present now but not in before.
func newCacheEntries(b *Box, before map[string]bool) []string {
	var out []string
	for f := range cacheListing(b) {
		if !before[f] && !strings.HasSuffix(f, "trim.txt") && !strings.Contains(f, "/tool/") {
			out = append(out, f)
		}
	}
	sort.Strings(out)
	return out
}

// warmClone returns a private copy of the pool's caches (std closure already
// built under the given configs): builds in it only (re)do the user packages.
func warmClone(p *Pool, label string) *Box {
	return cloneBox(&Box{GoCache: p.GoCache, GarbleCache: p.GCache}, label)
}

type reproCase struct {
	Name string
	Prog *Prog
	Cfgs []Config
}

func checkC03(c *Ctx) {
	c.SetRule("per (program, config): a first build in a private copy of a std-warm cache gives the reference sha256; then the user packages are re-obfuscated on byte-identical source K times by deleting exactly the cache entries that build created (entry-diff deletion: " +
		"every repetition re-runs garble's transformation with fresh map iteration orders and process schedules), varying one more axis per repetition: -p 1 / -p 3, the tree copied to another absolute path, TMPDIR inside the tree, a random half of the entries deleted (partially filled caches); " +
		"additionally two independent garble-cold builds (std re-obfuscated, different boxes) must give the same sha256. Programs: feature-composed multi-package programs (asm, generics, linkname, ...), a literal-heavy program, a reflection program (18 reflected struct types in two packages that share their type and field names, so the injected name table has many entries with equal original names and equally long obfuscated names) and control-flow programs. " +
		"distinct_nontrivial = distinct (program, config, axis, repetition) comparisons in which the rebuild actually re-ran compile actions for obfuscated packages (hook toolexec.begin count > 0).")
	c.Assume("the clock cannot be set in this sandbox: 'on the clock' is only exercised by builds at different times", "same toolchain, garble binary and target platform throughout")
	g := buildGarble("", false)
	reps := c.pick(6, 24)
	var cases []reproCase
	nComposed := c.pick(2, 8)
	for i := 0; i < nComposed; i++ {
		p := generate(subRand(c.Seed, "c03", c.Tier, i), GenOpts{NoTests: true, MinFeats: 7, MaxFeats: 11})
		cfgs := []Config{K0, K5}
		if !c.Quick() {
			cfgs = []Config{K0, K1, K2, K3, K5}
		}
		cases = append(cases, reproCase{fmt.Sprintf("composed%d", i), p, cfgs})
	}
	{
		rr := subRand(c.Seed, "c03lit", c.Tier)
		lp := genLitProg(rr, 100)
		p := &Prog{Module: "zqreprolit.example.com/l", Files: map[string]string{"go.mod": "module zqreprolit.example.com/l\n\ngo 1.26\n", "main.go": lp.Src}}
		cfgs := []Config{K23}
		if !c.Quick() {
			cfgs = []Config{K2, K23, K5}
		}
		cases = append(cases, reproCase{"literals", p, cfgs})
	}
	{
		p := genReflSameProg(subRand(c.Seed, "c03refl", c.Tier))
		cfgs := []Config{K0}
		if !c.Quick() {
			cfgs = []Config{K0, K3, K5}
		}
		cases = append(cases, reproCase{"reflection", p, cfgs})
	}
	// Parameters without block_splits (whose random split points often make garble reject the
	// build) so that control-flow builds actually succeed and can be compared.
	cfExclude := map[string]bool{"generics": true}
	for i := 0; i < c.pick(2, 6); i++ {
		fixed := &cfParams{Junk: "4", Passes: "1", Hardening: "xor,delegate_table"}
		if i%2 == 1 {
			fixed.Trash = "4"
			fixed.Passes = "2"
		}
		// Only the first batch of function kinds: with the round-4 kinds (gen_cf2.go) one program was not
		// reproducible on the unchanged tree (seed 1, ctrlflow0, K8, axis -p=1) and the kind responsible
		// has not been isolated yet (DESIGN.md section 5, open observations); C11 judges those kinds.
		var firstBatch []string
		for _, k := range cfKinds() {
			if !cfExclude[k.feature] {
				firstBatch = append(firstBatch, k.name)
			}
		}
		cp := genCFProgPick(subRand(c.Seed, "c03cf", c.Tier, i), 6, cfExclude, firstBatch, i%2 == 1, fixed)
		cfgs := []Config{K8}
		if !c.Quick() {
			cfgs = []Config{K8, K8u, K9}
		}
		name := fmt.Sprintf("ctrlflow%d", i)
		if i%2 == 1 {
			name += "+trash"
		}
		cases = append(cases, reproCase{name, cp.Prog, cfgs})
	}
	var allCfgs []Config
	seen := map[string]bool{}
	for _, rc := range cases {
		for _, cfg := range rc.Cfgs {
			if !seen[cfg.Key()] {
				seen[cfg.Key()] = true
				allCfgs = append(allCfgs, cfg)
			}
		}
	}
	pool := warmPool(g, false, allCfgs...)
	type job struct {
		rc  reproCase
		cfg Config
	}
	var jobs []job
	for _, rc := range cases {
		for _, cfg := range rc.Cfgs {
			jobs = append(jobs, job{rc, cfg})
		}
	}
	var mu sync.Mutex
	axisCount := map[string]int{}
	parallel(len(jobs), 5, func(ji int) {
		rc, cfg := jobs[ji].rc, jobs[ji].cfg
		w := materialize(rc.Prog, fmt.Sprintf("c03j%d", ji))
		defer w.cleanup()
		if !plainReference(c, w, filepath.Join(w.Root, "plain.bin"), false) {
			return
		}
		box := warmClone(pool, fmt.Sprintf("c03box%d", ji))
		before := cacheListing(box)
		ref := filepath.Join(w.Root, "ref.bin")
		gr := w.garbleBuild(g, box, cfg, ref, nil)
		if gr.TimedOut {
			c.Inconclusive("garble build watchdog fired")
			return
		}
		if !gr.OK() {
			if strings.HasPrefix(rc.Name, "ctrlflow") {
				c.Count("ctrlflow_builds_rejected", 1)
			} else {
				c.Inconclusive("garble build failed (judged by C01): " + firstLine(string(gr.Err)))
			}
			return
		}
		refSha := fileSha(ref)
		entries := newCacheEntries(box, before)
		if len(entries) == 0 {
			c.Inconclusive("the reference build created no cache entries")
			return
		}
		if ji == 0 {
			c.Sample(map[string]any{"program": rc.Name, "config": cfg.Key(), "reference_sha256": refSha, "cache_entries_created_by_the_build": len(entries)})
		}
		rng := subRand(c.Seed, "c03rep", ji)
		for rep := 0; rep < reps; rep++ {
			axis := []string{"same", "p1", "p3", "moved-tree", "tmp-inside", "half-warm"}[rep%6]
			del := entries
			if axis == "half-warm" {
				del = nil
				for _, e := range entries {
					if rng.Intn(2) == 0 {
						del = append(del, e)
					}
				}
			}
			for _, e := range del {
				os.Remove(e)
			}
			ww := w
			var extra []string
			bx := *box
			switch axis {
			case "p1":
				extra = []string{"-p=1"}
			case "p3":
				extra = []string{"-p=3"}
			case "moved-tree":
				other := filepath.Join(w.Root, fmt.Sprintf("zqother%d", rep), "deeper", "zqmoved")
				must(copyTree(w.Dir, other))
				ww = &Work{Prog: w.Prog, Dir: other, Root: w.Root}
			case "tmp-inside":
				bx.Tmp = filepath.Join(w.Dir, "zqtmpinside")
				must(os.MkdirAll(bx.Tmp, 0o755))
			}
			logDir := filepath.Join(w.Root, fmt.Sprintf("log%d", rep))
			must(os.MkdirAll(logDir, 0o755))
			out := filepath.Join(w.Root, fmt.Sprintf("rep%d.bin", rep))
			r := ww.garbleBuild(g, &bx, cfg, out, []string{"GARBLE_VERIF_LOG=" + logDir}, extra...)
			if axis == "tmp-inside" {
				os.RemoveAll(bx.Tmp)
			}
			if r.TimedOut {
				c.Inconclusive("rebuild watchdog fired")
				continue
			}
			if !r.OK() {
				c.Eval("")
				c.Violate("rebuild-fails/"+axis, fmt.Sprintf("%s %s: a rebuild of identical source (axis %s) fails although the first build succeeded\n%s", rc.Name, cfg.Name, axis, r), w.replayFiles(map[string]string{"config.txt": cfg.Key()}))
				continue
			}
			ncompile := 0
			for _, e := range readEvents(logDir) {
				if e.Kind == "toolexec.begin" && e.Str("tool") == "compile" && e.Pkg != "" {
					ncompile++
				}
			}
			sig := ""
			if ncompile > 0 {
				sig = fmt.Sprintf("%s|%s|%s|%d", rc.Name, cfg.Name, axis, rep)
			}
			c.Eval(sig)
			mu.Lock()
			axisCount[axis]++
			mu.Unlock()
			sha := fileSha(out)
			os.Remove(out)
			os.RemoveAll(logDir)
			if sha != refSha {
				kind := strings.TrimRight(rc.Name, "0123456789")
				if strings.Contains(rc.Name, "+trash") {
					kind = "ctrlflow+trash"
				}
				c.Violate("not-reproducible/"+kind+"/"+cfgClass(cfg), fmt.Sprintf("%s %s: rebuilding identical source (repetition %d, axis %s) gives sha256 %s, the first build gave %s", rc.Name, cfg.Name, rep, axis, sha[:16], refSha[:16]),
					w.replayFiles(map[string]string{"config.txt": cfg.Key(), "axis.txt": axis}))
				break
			}
		}
	})
	c.Extra("comparisons_by_axis", axisCount)

	// Independent garble-cold builds of one composed program: std is re-obfuscated in each box.
	{
		rc := cases[0]
		cfg := rc.Cfgs[len(rc.Cfgs)-1]
		shas := make([]string, 3)
		parallel(2, 2, func(i int) {
			w := materialize(rc.Prog, fmt.Sprintf("c03cold%d", i))
			defer w.cleanup()
			box := newColdBox(fmt.Sprintf("c03coldbox%d", i), true)
			out := filepath.Join(w.Root, "cold.bin")
			r := w.garbleBuild(g, box, cfg, out, nil)
			if r.OK() {
				shas[i] = fileSha(out)
			} else if !r.TimedOut {
				shas[i] = "build-failed"
			}
		})
		// and the warm-pool based reference again for comparison
		w := materialize(rc.Prog, "c03coldref")
		defer w.cleanup()
		out := filepath.Join(w.Root, "warm.bin")
		if r := w.garbleBuild(g, warmClone(pool, "c03coldrefbox"), cfg, out, nil); r.OK() {
			shas[2] = fileSha(out)
		}
		if shas[0] != "" && shas[1] != "" && shas[2] != "" {
			c.Eval("cold-vs-cold|" + cfg.Name)
			c.Eval("cold-vs-warm|" + cfg.Name)
			if shas[0] != shas[1] || shas[0] != shas[2] {
				c.Violate("not-reproducible/cold/"+cfgClass(cfg), fmt.Sprintf("%s %s: two independent garble-cold builds and a warm-cache build give %s / %s / %s", rc.Name, cfg.Name, shas[0][:16], shas[1][:16], shas[2][:16]), w.replayFiles(map[string]string{"config.txt": cfg.Key()}))
			}
		} else {
			c.Inconclusive("cold builds did not complete")
		}
	}
	_ = time.Second
}

// genReflSameProg: many reflected struct types (in two packages) whose fields and types share
// their original names: the injected name table then has many entries with equal original names
// and, by pigeonhole over the 6..12 hash lengths, equally long obfuscated names.
func genReflSameProg(r *rand.Rand) *Prog {
	mod := "zqreprorefl.example.com/r"
	s := randAlnum(r, 5)
	third := []string{"int", "int8", "int16", "int32", "int64", "uint", "uint8", "uint16", "uint32", "uint64", "float32", "float64", "string", "bool", "[]int", "[2]int", "map[string]int", "*int"}
	r.Shuffle(len(third), func(i, j int) { third[i], third[j] = third[j], third[i] })
	files := map[string]string{"go.mod": "module " + mod + "\n\ngo 1.26\n"}
	var mainCalls strings.Builder
	for pi, pkg := range []string{"zqra", "zqrb"} {
		var b, all strings.Builder
		fmt.Fprintf(&b, "package %s\n\nimport (\n\t\"encoding/json\"\n\t\"reflect\"\n)\n\n", pkg)
		for i := 0; i < 9; i++ {
			// the same type names in both packages, the same field names in every struct
			// (field names are salted with the struct's field names and positions, not the field types:
			// the third field's name is what makes the 18 struct shapes, and so the names of ZqID/ZqName, differ)
			fmt.Fprintf(&b, "type ZqRec%s%d struct {\n\tZqID%s   int\n\tZqName%s string\n\tZqX%s%c%d    %s\n}\n\n", s, i, s, s, s, 'a'+pi, i, third[pi*9+i])
			fmt.Fprintf(&all, "\t\tZqRec%s%d{ZqID%s: n + %d, ZqName%s: \"n\"},\n", s, i, s, i, s)
		}
		fmt.Fprintf(&b, "//go:noinline\nfunc ZqDump(n int) string {\n\tout := \"\"\n\tfor _, v := range []any{\n%s\t} {\n\t\tj, _ := json.Marshal(v)\n\t\tt := reflect.TypeOf(v)\n\t\tout += t.Name() + \" \" + t.Field(0).Name + \" \" + t.Field(2).Name + \" \" + string(j) + \"\\n\"\n\t}\n\treturn out\n}\n", all.String())
		files[pkg+"/"+pkg+".go"] = b.String()
		fmt.Fprintf(&mainCalls, "\tfmt.Print(%s.ZqDump(len(os.Args)))\n", pkg)
	}
	files["main.go"] = "package main\n\nimport (\n\t\"fmt\"\n\t\"os\"\n\n\t\"" + mod + "/zqra\"\n\t\"" + mod + "/zqrb\"\n)\n\nfunc main() {\n" + mainCalls.String() + "}\n"
	return &Prog{Module: mod, Files: files}
}

// cfgClass names the obfuscation features of a config for class keys.
func cfgClass(cfg Config) string {
	var parts []string
	if cfg.has("-literals") {
		parts = append(parts, "literals")
	}
	if cfg.has("-tiny") {
		parts = append(parts, "tiny")
	}
	if cfg.has("-seed") {
		parts = append(parts, "seed")
	}
	for _, e := range cfg.Env {
		if strings.HasPrefix(e, "GARBLE_EXPERIMENTAL_CONTROLFLOW") {
			parts = append(parts, "ctrlflow")
		}
	}
	if len(parts) == 0 {
		return "default"
	}
	return strings.Join(parts, "+")
}
