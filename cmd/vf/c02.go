package main

import (
	"bytes"
	"debug/elf"
	"fmt"
	"os"
	"path/filepath"
	"strings"
	"time"
)

func init() { register("C02", "exploration", checkC02) }

// elfForbiddenSections lists symbol/debug sections that must be absent.
func elfForbiddenSections(path string) ([]string, error) {
	f, err := elf.Open(path)
	if err != nil {
		return nil, err
	}
	defer f.Close()
	var bad []string
	for _, s := range f.Sections {
		n := s.Name
		// .dynsym/.dynstr are not the symbol table the property speaks of: an externally linked (cgo)
		// binary needs them to import libc, in the regular build too; their contents are covered by
		// the marker scan like every other byte of the file.
		if n == ".symtab" || n == ".strtab" || strings.HasPrefix(n, ".debug_") || strings.HasPrefix(n, ".zdebug_") || (n == ".gosymtab" && s.Size > 0) {
			if s.Size > 0 || n != ".gosymtab" {
				bad = append(bad, n)
			}
		}
	}
	if syms, err := f.Symbols(); err == nil && len(syms) > 0 {
		bad = append(bad, fmt.Sprintf("%d ELF symbols", len(syms)))
	}
	return bad, nil
}

// goBuildIDNote returns the descriptor of the ELF note (name "Go", type 4) that holds the Go build ID.
func goBuildIDNote(path string) (string, error) {
	f, err := elf.Open(path)
	if err != nil {
		return "", err
	}
	defer f.Close()
	for _, s := range f.Sections {
		if s.Type != elf.SHT_NOTE {
			continue
		}
		data, err := s.Data()
		if err != nil {
			continue
		}
		for len(data) >= 12 {
			namesz := f.ByteOrder.Uint32(data[0:])
			descsz := f.ByteOrder.Uint32(data[4:])
			typ := f.ByteOrder.Uint32(data[8:])
			no := 12 + (int(namesz)+3)&^3
			end := no + (int(descsz)+3)&^3
			if no > len(data) || end > len(data) || no+int(descsz) > len(data) {
				break
			}
			name := strings.TrimRight(string(data[12:12+namesz]), "\x00")
			if name == "Go" && typ == 4 {
				return string(data[no : no+int(descsz)]), nil
			}
			data = data[end:]
		}
	}
	return "", nil
}

// metadataProbes checks `go version -m`, `go tool buildid`, the ELF section table
// and the Go version string. Returns a list of leaks.
func metadataProbes(bin string) []string {
	var leaks []string
	r := Run(Cmd{Env: plainEnv(), Argv: []string{"go", "version", "-m", bin}, Timeout: time.Minute})
	out := strings.TrimSpace(string(r.Out))
	if out != bin+": unknown" {
		leaks = append(leaks, "go version -m prints: "+clip(r.Out, 400)+clip(r.Err, 200))
	}
	// The Go build ID note. (`go tool buildid` is not used: without a Go note it falls back to the GNU
	// build-id, a content hash the host linker adds to externally linked binaries on its own.)
	if id, err := goBuildIDNote(bin); err == nil && id != "" {
		leaks = append(leaks, "build ID present: "+id)
	}
	if bad, err := elfForbiddenSections(bin); err != nil {
		leaks = append(leaks, "not an ELF file: "+err.Error())
	} else if len(bad) > 0 {
		leaks = append(leaks, "symbol/debug sections present: "+strings.Join(bad, ","))
	}
	return leaks
}

func checkC02(c *Ctx) {
	c.SetRule("generated multi-package programs whose identifiers, file, directory, module and package names are unique >=11-char random markers; functions and methods are //go:noinline and types are boxed into interfaces " +
		"so that a regular *stripped* build provably contains the names. Oracle: exact byte search of every must-hide marker, the absolute source directory, TMPDIR, 'garble-shared', the Go version string; " +
		"`go version -m` == unknown; no Go build ID note (or an empty one); no .symtab/.strtab/.debug_* sections and no ELF symbols. distinct_nontrivial = distinct must-hide markers that occur in the regular `-trimpath -ldflags='-s -w'` binary of the same program " +
		"(so the scan would have seen them had they not been obfuscated). Special-name scenario: a 5-package reflection-free program declares a type, a noinline function, a struct field and a variable named after every identifier-like string literal of garble's own sources (names it special-cases for std packages: Method, FS, align64, ...) and common Go API names; " +
		"per name and kind the name-map oracle (garbled sources kept by the hook) must show a changed name or the binary must lack `<obfuscated import path>.<name>` (pclntab), the type-string record `*<obfuscated package>.<name>` and the field-name record.")
	c.Assume("programs never pass user types to reflecting APIs", "markers carry >=53 bits of entropy, so chance matches are impossible")
	g := buildGarble("", false)
	cfgs := []Config{K0, K5}
	nprog := 10
	if !c.Quick() {
		cfgs = []Config{K0, K1, K2, K3, K5}
		nprog = 70
	}
	pool := warmPool(g, false, cfgs...)
	progs := genPrograms(c, "c02", nprog, GenOpts{NoTests: true})
	for i := range progs {
		// every fifth program also has a package that imports "C" (external linking, cgo-generated files)
		if i%5 == 4 {
			progs[i] = generate(subRand(c.Seed, "c02", c.Tier, i), GenOpts{NoTests: true, Extra: []string{"cgo"}})
		}
	}
	goVersion := strings.TrimSpace(string(Run(Cmd{Env: plainEnv(), Argv: []string{"go", "env", "GOVERSION"}, Timeout: time.Minute}).Out))
	classCount := map[string]int{}

	parallel(len(progs), 8, func(i int) {
		p := progs[i]
		w := materialize(p, fmt.Sprintf("c02p%d", i))
		defer w.cleanup()
		plainBin := filepath.Join(w.Root, "plain-stripped.bin")
		if !plainReference(c, w, plainBin, true) {
			return
		}
		plainData, _ := os.ReadFile(plainBin)
		inPlain := markersIn(plainData, p.Markers)
		if !bytes.Contains(plainData, []byte(goVersion)) {
			c.Inconclusive("scanner sensitivity: regular binary lacks the Go version string " + goVersion)
		}
		if id, _ := goBuildIDNote(plainBin); id == "" {
			c.Inconclusive("scanner sensitivity: the regular binary has no Go build ID note")
		}
		if i == 0 {
			var obs []string
			for _, m := range p.Markers {
				if m.Hide && inPlain[m.Name] {
					obs = append(obs, m.Class+":"+m.Name)
				}
			}
			c.Sample(map[string]any{"features": p.Features, "must_hide_markers_observable_in_regular_stripped_binary": obs})
		}
		for ci, cfg := range cfgs {
			// TMPDIR inside the source tree for some cases, outside for others.
			tmp := filepath.Join(w.Root, "tmp-"+cfg.Name)
			if (i+ci)%2 == 1 {
				tmp = filepath.Join(w.Dir, "zqtmpinside")
			}
			box := pool.Box(tmp)
			// -o inside or outside the tree.
			bin := filepath.Join(w.Root, "garbled-"+cfg.Name+".bin")
			if (i+ci)%3 == 0 {
				bin = filepath.Join(w.Dir, "zqoutbin")
			}
			r := w.garbleBuild(g, box, cfg, bin, nil)
			if r.TimedOut {
				c.Inconclusive("garble build watchdog fired")
				continue
			}
			if !r.OK() {
				// Build failures are C01's business; here the case is simply not judged.
				c.Inconclusive("garble build failed (judged by C01): " + firstLine(string(r.Err)))
				continue
			}
			data, err := os.ReadFile(bin)
			if err != nil {
				c.Inconclusive("no output binary")
				continue
			}
			c.EvalN(1)
			var leaks []string
			for _, m := range p.Markers {
				if !m.Hide {
					continue
				}
				if inPlain[m.Name] {
					c.Nontrivial(m.Class + ":" + m.Name)
					c.mu.Lock()
					classCount[m.Class]++
					c.mu.Unlock()
				}
				if bytes.Contains(data, []byte(m.Name)) {
					leaks = append(leaks, fmt.Sprintf("%s %q (pkg %s)", m.Class, m.Name, m.Pkg))
					c.Violate("name-leak/"+m.Class, fmt.Sprintf("%s: obfuscated binary contains the %s name %q of package %s (features %s)", cfg.Name, m.Class, m.Name, m.Pkg, strings.Join(p.Features, ",")),
						w.replayFiles(map[string]string{"config.txt": cfg.Key()}))
				}
			}
			for what, needle := range map[string]string{
				"source-dir": w.Dir, "source-dir-base": "zqsrcroot", "tmpdir": tmp, "garble-shared": "garble-shared", "go-version": goVersion, "module-path": p.Module,
				"scratch-root": filepath.Base(scratchRoot), "verif-work": "/.work/",
			} {
				if bytes.Contains(data, []byte(needle)) {
					c.Violate("path-leak/"+what, fmt.Sprintf("%s: obfuscated binary contains %s %q", cfg.Name, what, needle), w.replayFiles(map[string]string{"config.txt": cfg.Key()}))
				}
			}
			for _, l := range metadataProbes(bin) {
				c.Violate("metadata/"+strings.SplitN(l, " ", 2)[0], fmt.Sprintf("%s: %s", cfg.Name, l), w.replayFiles(map[string]string{"config.txt": cfg.Key()}))
			}
			c.Count("metadata_probes", 1)
		}
	})

	// A VCS directory must not leak VCS info either (garble passes -buildvcs=false).
	if len(progs) > 0 {
		p := progs[0]
		w := materialize(p, "c02vcs")
		defer w.cleanup()
		gitEnv := append(plainEnv(), "GIT_AUTHOR_NAME=zqvcsauthor", "GIT_AUTHOR_EMAIL=zqvcs@example.com", "GIT_COMMITTER_NAME=zqvcsauthor", "GIT_COMMITTER_EMAIL=zqvcs@example.com")
		ok := true
		for _, argv := range [][]string{{"git", "init", "-q"}, {"git", "add", "-A"}, {"git", "commit", "-q", "-m", "zqvcscommitmsg"}} {
			if r := Run(Cmd{Dir: w.Dir, Env: gitEnv, Argv: argv, Timeout: time.Minute}); !r.OK() {
				ok = false
			}
		}
		if ok {
			rev := strings.TrimSpace(string(Run(Cmd{Dir: w.Dir, Env: gitEnv, Argv: []string{"git", "rev-parse", "HEAD"}, Timeout: time.Minute}).Out))
			bin := filepath.Join(w.Root, "vcs.bin")
			r := w.garbleBuild(g, pool.Box(filepath.Join(w.Root, "tmp")), cfgs[0], bin, nil)
			if r.OK() {
				data, _ := os.ReadFile(bin)
				c.Eval("vcs-dir")
				if rev != "" && bytes.Contains(data, []byte(rev)) {
					c.Violate("metadata/vcs", "obfuscated binary contains the VCS revision "+rev, w.replayFiles(nil))
				}
				for _, l := range metadataProbes(bin) {
					c.Violate("metadata/"+strings.SplitN(l, " ", 2)[0], "with a git repository present: "+l, w.replayFiles(nil))
				}
			}
		}
	}
	// Objects of user packages named like identifiers that garble special-cases for std packages.
	spCfgs := []Config{K0}
	if !c.Quick() {
		spCfgs = []Config{K0, K5}
	}
	c02SpecialNames(c, g, pool, spCfgs)
	c.Extra("observable_marker_checks_by_class", classCount)
	c.Extra("go_version_string_searched", goVersion)
}
