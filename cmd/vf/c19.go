package main

import (
	"encoding/json"
	"fmt"
	"os"
	"path/filepath"
	"regexp"
	"strings"
	"time"
)

func init() { register("C19", "exploration", checkC19) }

const c19Mod = "zqfs.example.com/app"

// c19Program returns the fixture for an outcome class.
func c19Program(outcome string) map[string]string {
	files := map[string]string{
		"go.mod":       "module " + c19Mod + "\n\ngo 1.26\n",
		"main.go":      "package main\n\nimport (\n\t\"fmt\"\n\t\"os\"\n\n\t\"" + c19Mod + "/zqlib\"\n)\n\nfunc main() {\n\tfmt.Println(\"app\", zqlib.ZqTwice(21), len(os.Args))\n\tif len(os.Args) > 1 && os.Args[1] == \"exit3\" {\n\t\tos.Exit(3)\n\t}\n}\n",
		"second.go":    "package main\n\nfunc zqSecondFile() int { return 2 }\n",
		"zqlib/lib.go": "package zqlib\n\n//go:noinline\nfunc ZqTwice(n int) int { return zqhelper(n) * 2 }\n",
		"zqlib/h.go":   "package zqlib\n\nfunc zqhelper(n int) int { return n }\n",
		"zqlib/lib_test.go": "package zqlib\n\nimport \"testing\"\n\nfunc TestTwice(t *testing.T) {\n\tif ZqTwice(2) != 4 {\n\t\tt.Fatal(\"bad\")\n\t}\n}\n",
		"README.txt":   "a file garble has no business with\n",
		"data/blob.bin": "\x00\x01\x02binary",
	}
	switch outcome {
	case "list-error":
		files["main.go"] = strings.Replace(files["main.go"], "\t\"os\"\n", "\t\"os\"\n\t_ \"zqmissing.example.com/none\"\n", 1)
	case "type-error":
		files["second.go"] = "package main\n\nvar zqBad int = \"not an int\"\n"
	case "dep-compile-error":
		files["zqlib/h.go"] = "package zqlib\n\nfunc zqhelper(n int) int { return undefinedName }\n"
	case "link-error":
		files["zqlib/h.go"] = "package zqlib\n\nfunc zqhelper(n int) int\n"
		files["zqlib/stub_amd64.s"] = "// no definition of zqhelper on purpose\n"
	case "test-fails":
		files["zqlib/lib_test.go"] = strings.Replace(files["zqlib/lib_test.go"], "!= 4", "!= 5", 1)
	}
	return files
}

type c19Case struct {
	Name     string
	Outcome  string   // fixture variant
	GFlags   []string // garble flags
	Command  string
	Args     []string
	Env      []string
	Stdin    string
	WantOK   bool   // expected exit status 0
	ErrMatch string // regexp the stderr of a failing command must match (outcome reached)
	Debugdir string // "", or the pre-existing state of the -debugdir target
}

func c19Cases(quick bool) []c19Case {
	out := "@OUT@" // replaced by an absolute path outside the source tree
	cs := []c19Case{
		{Name: "build-ok", Outcome: "ok", Command: "build", Args: []string{"-o", out, "."}, WantOK: true},
		{Name: "build-ok-tiny-literals", Outcome: "ok", GFlags: []string{"-tiny", "-literals", "-seed=" + seedA}, Command: "build", Args: []string{"-o", out, "."}, WantOK: true},
		{Name: "build-list-error", Outcome: "list-error", Command: "build", Args: []string{"-o", out, "."}, ErrMatch: `zqmissing|no required module|cannot find`},
		{Name: "build-type-error", Outcome: "type-error", Command: "build", Args: []string{"-o", out, "."}, ErrMatch: `cannot use|typecheck`},
		{Name: "build-dep-compile-error", Outcome: "dep-compile-error", Command: "build", Args: []string{"-o", out, "."}, ErrMatch: `undefined`},
		{Name: "build-link-error", Outcome: "link-error", Command: "build", Args: []string{"-o", out, "."}, ErrMatch: `not defined|missing function body|undefined`},
		{Name: "build-bad-go-flag", Outcome: "ok", Command: "build", Args: []string{"-zqnosuchflag", "."}, ErrMatch: `flag provided but not defined`},
		{Name: "build-garble-flag-after-command", Outcome: "ok", Command: "build", Args: []string{"-tiny", "."}, ErrMatch: `must precede command`},
		{Name: "build-gogarble-nothing", Outcome: "ok", Command: "build", Args: []string{"-o", out, "."}, Env: []string{"GOGARBLE=zqnomatch.example.com"}, ErrMatch: `does not match any packages`},
		{Name: "test-ok", Outcome: "ok", Command: "test", Args: []string{"./..."}, WantOK: true},
		{Name: "test-fails", Outcome: "test-fails", Command: "test", Args: []string{"./..."}, ErrMatch: `.*`},
		{Name: "run-ok", Outcome: "ok", Command: "run", Args: []string{".", "a"}, WantOK: true},
		{Name: "run-program-exits-3", Outcome: "ok", Command: "run", Args: []string{".", "exit3"}, ErrMatch: `exit status 3`},
		{Name: "reverse-ok", Outcome: "ok", Command: "reverse", Args: []string{"."}, Stdin: "nothing to reverse\n", ErrMatch: `^$`},
		{Name: "reverse-bad-flag", Outcome: "ok", Command: "reverse", Args: []string{"-run=X", "."}, Stdin: "x\n", ErrMatch: `flag provided but not defined`},
		{Name: "reverse-type-error", Outcome: "type-error", Command: "reverse", Args: []string{"."}, Stdin: "x\n", ErrMatch: `cannot use|typecheck`},
		{Name: "map-ok", Outcome: "ok", Command: "map", Args: []string{"./..."}, WantOK: true},
		{Name: "map-list-error", Outcome: "list-error", Command: "map", Args: []string{"./..."}, ErrMatch: `zqmissing|no required module|cannot find`},
	}
	// -debugdir target states
	for _, st := range []string{"foreign-files", "foreign-subdir", "regular-file", "symlink-to-foreign"} {
		cs = append(cs, c19Case{Name: "debugdir-" + st, Outcome: "ok", Command: "build", Args: []string{"-o", out, "."}, Debugdir: st, ErrMatch: `unknown contents`})
	}
	if !quick {
		for _, oc := range []string{"type-error", "dep-compile-error", "link-error"} {
			cs = append(cs, c19Case{Name: "test-" + oc, Outcome: oc, Command: "test", Args: []string{"./..."}, ErrMatch: `.*`})
			cs = append(cs, c19Case{Name: "run-" + oc, Outcome: oc, Command: "run", Args: []string{"."}, ErrMatch: `.*`})
		}
		cs = append(cs, c19Case{Name: "build-ok-in-tree-output", Outcome: "ok", Command: "build", Args: []string{"-o", "zqoutput.bin", "."}, WantOK: true})
	}
	return cs
}

var rxGarbleTmp = regexp.MustCompile(`^(garble-shared|importcfg|linker-src)`)

func checkC19(c *Ctx) {
	c.SetRule("commands {build, test, run, reverse, map} x outcomes {success, go list error, type error, compile error in a dependency, link error, failing test, program exit status, bad go flag, garble flag after the command, GOGARBLE matching nothing} x -debugdir target states {absent, empty, owned, foreign files, foreign subdirectory, regular file, symlink to a foreign directory}. " +
		"Oracle: recursive (mode, size, sha256) snapshot of the source tree (with unrelated files in it) and of the -debugdir target before and after; listing of a private, initially empty TMPDIR after the command (no garble-shared*/importcfg*/linker-src* left); " +
		"an owned or fresh -debugdir must end up holding source/ and garbled/ files for every file `go list -deps` reports for the build, on a cold (forced rebuild), warm (restored from cache) and partially deleted cache; garbled files of multi-file packages must differ from each other. " +
		"distinct_nontrivial = distinct cases that reached their intended outcome class (exit status and stderr pattern).")
	c.Assume("go's own go-build* temporary directories are the go command's responsibility", "killed commands are C18's subject; this check only judges commands that exit")
	g := buildGarble("", false)
	pool := warmPool(g, true, K0, K5)
	cases := c19Cases(c.Quick())
	parallel(len(cases), 6, func(i int) {
		tc := cases[i]
		root := scratch("c19-" + tc.Name)
		defer chmodAndRemove(root)
		src := filepath.Join(root, "tree", "app")
		writeTree(src, c19Program(tc.Outcome))
		os.Chmod(filepath.Join(src, "README.txt"), 0o444)
		tmp := filepath.Join(root, "tmp")
		box := pool.Box(tmp)
		gflags := append([]string{}, tc.GFlags...)
		ddTarget := ""
		var ddBefore map[string]string
		if tc.Debugdir != "" {
			ddTarget = filepath.Join(root, "dd")
			foreign := filepath.Join(root, "foreign")
			switch tc.Debugdir {
			case "foreign-files":
				writeTree(ddTarget, map[string]string{"precious.txt": "do not delete\n"})
			case "foreign-subdir":
				writeTree(ddTarget, map[string]string{"sub/deep/precious.txt": "do not delete\n"})
			case "regular-file":
				must(os.WriteFile(ddTarget, []byte("i am a file\n"), 0o644))
			case "symlink-to-foreign":
				writeTree(foreign, map[string]string{"precious.txt": "do not delete\n"})
				must(os.Symlink(foreign, ddTarget))
			}
			ddBefore = snapshotTree(root + "/dd")
			for k, v := range snapshotTree(foreign) {
				ddBefore["foreign/"+k] = v
			}
			gflags = append(gflags, "-debugdir="+ddTarget)
		}
		before := snapshotTree(filepath.Join(root, "tree"))
		cfg := Config{Name: tc.Name, GFlags: gflags, Env: tc.Env}
		var stdin []byte
		if tc.Stdin != "" {
			stdin = []byte(tc.Stdin)
		}
		args := append([]string{}, tc.Args...)
		for k := range args {
			if args[k] == "@OUT@" {
				args[k] = filepath.Join(root, "out.bin")
			}
		}
		tc.Args = args
		argv := garbleArgv(g, cfg, tc.Command, tc.Args...)
		// Hook-free cross-check: selected cases (all in the thorough tier) run under strace and every
		// successful create/write-open/rename/unlink/mkdir/chmod must stay inside the allowed roots.
		straced := !c.Quick() || tc.Name == "build-ok" || tc.Name == "test-ok" || tc.Name == "reverse-ok" || tc.Name == "map-ok" || tc.Name == "build-type-error" || tc.Name == "debugdir-foreign-files"
		straceLog := filepath.Join(root, "strace.log")
		if straced {
			argv = straceArgv(straceLog, argv)
		}
		r := Run(Cmd{Dir: src, Env: box.Env(tc.Env...), Argv: argv, Stdin: stdin, Timeout: 30 * time.Minute})
		if r.TimedOut {
			c.Inconclusive("watchdog fired for " + tc.Name)
			return
		}
		reached := (tc.WantOK && r.RC == 0) || (!tc.WantOK && (r.RC != 0 || tc.Name == "reverse-ok") && regexp.MustCompile(tc.ErrMatch).Match(r.Err))
		if tc.Name == "reverse-ok" {
			reached = r.RC == 1 // nothing replaced
		}
		sig := ""
		if reached {
			sig = tc.Name
		} else {
			c.Count("outcome_not_reached", 1)
			c.Logf("case %s did not reach its outcome class: rc=%d stderr=%q", tc.Name, r.RC, clip(r.Err, 300))
		}
		c.Eval(sig)
		files := map[string]string{"case.json": jsonStr(tc), "output.txt": r.String()}
		for name, content := range c19Program(tc.Outcome) {
			files["src/"+name] = content
		}
		if straced {
			muts, total := parseStraceMutations(straceLog, src)
			c.Count("strace.syscalls_seen", total)
			c.Count("strace.mutations_checked", len(muts))
			if total == 0 {
				c.Inconclusive("strace recorded nothing for " + tc.Name)
			}
			// out.bin-go-tmp-umask: cmd/go itself creates and removes this sibling of a not yet existing
			// -o target to learn the umask (cmd/go/internal/work, moveOrCopyFile); it is not garble's file.
			roots := []string{tmp, box.GoCache, box.GarbleCache, filepath.Join(root, "out.bin"), filepath.Join(root, "out.bin-go-tmp-umask"), "/dev/null", "/dev/tty", "/proc", "/root/.config/go/telemetry", root + "/strace.log"}
			if tc.Name == "build-ok-in-tree-output" {
				roots = append(roots, filepath.Join(src, "zqoutput.bin"), filepath.Join(src, "zqoutput.bin-go-tmp-umask"))
			}
			bad := outsideRoots(muts, roots)
			if len(bad) > 0 {
				var desc []string
				for i, b := range bad {
					if i < 5 {
						desc = append(desc, b.Line)
					}
				}
				files["strace-violations.txt"] = strings.Join(desc, "\n") + "\n"
				c.Violate("mutation-outside-own-files/"+tc.Command, fmt.Sprintf("garble %s (%s): %d file-system mutations outside TMPDIR, the caches and the requested output, e.g. %s", tc.Command, tc.Name, len(bad), clip([]byte(bad[0].Line), 300)), files)
			}
		}
		after := snapshotTree(filepath.Join(root, "tree"))
		diffs := diffSnap(before, after)
		var unexpected []string
		for _, d := range diffs {
			if strings.Contains(d, "zqoutput.bin") && strings.HasPrefix(d, "added:") {
				continue // the requested output
			}
			unexpected = append(unexpected, d)
		}
		if len(unexpected) > 0 {
			c.Violate("source-tree-modified/"+tc.Command, fmt.Sprintf("garble %s (%s) changed the source tree: %s", tc.Command, tc.Name, strings.Join(unexpected, "; ")), files)
		}
		ents, _ := os.ReadDir(tmp)
		var left []string
		for _, e := range ents {
			if rxGarbleTmp.MatchString(e.Name()) {
				left = append(left, e.Name())
			} else {
				c.Count("tmpdir.other_leftovers", 1)
			}
		}
		if len(left) > 0 {
			c.Violate("tmpdir-leftover/"+tc.Command, fmt.Sprintf("after garble %s (%s, rc=%d) TMPDIR still holds %v", tc.Command, tc.Name, r.RC, left), files)
		}
		if tc.Debugdir != "" {
			ddAfter := snapshotTree(root + "/dd")
			for k, v := range snapshotTree(filepath.Join(root, "foreign")) {
				ddAfter["foreign/"+k] = v
			}
			if d := diffSnap(ddBefore, ddAfter); len(d) > 0 {
				c.Violate("debugdir-foreign-touched/"+tc.Debugdir, fmt.Sprintf("-debugdir on a target with unknown contents (%s) modified it: %s", tc.Debugdir, strings.Join(d, "; ")), files)
			}
			if r.RC == 0 {
				c.Violate("debugdir-foreign-accepted/"+tc.Debugdir, fmt.Sprintf("-debugdir accepted a non-empty target without its marker (%s)", tc.Debugdir), files)
			}
		}
		if i < 2 {
			c.Sample(map[string]any{"case": tc.Name, "argv": garbleArgv(&GarbleBin{Path: "garble"}, cfg, tc.Command, tc.Args...), "rc": r.RC, "source_tree_entries_compared": len(before), "tmpdir_entries_after": len(ents)})
		}
	})

	// ---- -debugdir completeness on cold, warm and partially deleted caches.
	func() {
		root := scratch("c19-dd")
		defer chmodAndRemove(root)
		src := filepath.Join(root, "tree", "app")
		writeTree(src, c19Program("ok"))
		// expected file set from go list
		lr := Run(Cmd{Dir: src, Env: plainEnv(), Argv: []string{"go", "list", "-deps", "-compiled", "-json=ImportPath,CompiledGoFiles,SFiles,Standard", "-trimpath", "."}, Timeout: 5 * time.Minute})
		if !lr.OK() {
			c.Inconclusive("go list for the debugdir completeness check failed")
			return
		}
		type lp struct {
			ImportPath      string
			CompiledGoFiles []string
			SFiles          []string
		}
		var pkgs []lp
		dec := json.NewDecoder(strings.NewReader(string(lr.Out)))
		for dec.More() {
			var p lp
			if dec.Decode(&p) != nil {
				break
			}
			if p.ImportPath != "unsafe" && len(p.CompiledGoFiles) > 0 {
				pkgs = append(pkgs, p)
			}
		}
		box := warmClone(pool, "c19ddbox")
		dd := filepath.Join(root, "dd")
		cfg := Config{Name: "dd", GFlags: []string{"-debugdir=" + dd}}
		states := []string{"absent(cold: forced rebuild)", "owned(warm: restored from cache)", "owned(partially deleted garble cache)", "empty-dir"}
		for si, st := range states {
			switch si {
			case 2:
				// delete a third of GARBLE_CACHE/build entries
				for k, f := range listFiles(filepath.Join(box.GarbleCache, "build")) {
					if k%3 == 0 {
						os.Remove(filepath.Join(box.GarbleCache, "build", f))
					}
				}
			case 3:
				os.RemoveAll(dd)
				must(os.MkdirAll(dd, 0o755))
			}
			before := snapshotTree(filepath.Join(root, "tree"))
			r := Run(Cmd{Dir: src, Env: box.Env(), Argv: garbleArgv(g, cfg, "build", "-o", filepath.Join(root, "out.bin"), "."), Timeout: 30 * time.Minute})
			if r.TimedOut {
				c.Inconclusive("debugdir build watchdog fired")
				return
			}
			c.Eval("debugdir-complete|" + st)
			files := map[string]string{"state.txt": st, "output.txt": r.String()}
			if !r.OK() {
				c.Violate("debugdir-build-fails", fmt.Sprintf("garble -debugdir build fails with the target %s\n%s", st, r), files)
				return
			}
			if d := diffSnap(before, snapshotTree(filepath.Join(root, "tree"))); len(d) > 0 {
				c.Violate("source-tree-modified/build", "garble -debugdir build changed the source tree: "+strings.Join(d, "; "), files)
			}
			if !exists(filepath.Join(dd, ".garble-debugdir")) {
				c.Violate("debugdir-no-marker", "an owned -debugdir lacks its marker file after the build ("+st+")", files)
			}
			var missing []string
			checked := 0
			for _, p := range pkgs {
				names := append(append([]string{}, p.CompiledGoFiles...), p.SFiles...)
				for _, f := range names {
					base := filepath.Base(f)
					if strings.HasPrefix(base, "_cgo_") || strings.HasSuffix(base, ".cgo1.go") {
						continue
					}
					for _, sub := range []string{"source", "garbled"} {
						checked++
						if !exists(filepath.Join(dd, sub, filepath.FromSlash(p.ImportPath), base)) {
							missing = append(missing, sub+"/"+p.ImportPath+"/"+base)
						}
					}
				}
			}
			c.Count("debugdir.files_checked", checked)
			if len(missing) > 0 {
				n := len(missing)
				if n > 8 {
					missing = missing[:8]
				}
				c.Violate("debugdir-incomplete", fmt.Sprintf("-debugdir (%s) lacks %d of %d expected files, e.g. %v", st, n, checked, missing), files)
			}
			// garbled files of a multi-file package must be distinct files
			a, _ := os.ReadFile(filepath.Join(dd, "garbled", c19Mod, "main.go"))
			b, _ := os.ReadFile(filepath.Join(dd, "garbled", c19Mod, "second.go"))
			if len(a) > 0 && string(a) == string(b) || (len(b) > 0 && !strings.Contains(string(b), "return 2")) {
				c.Violate("debugdir-garbled-corrupt", "garbled files of the multi-file main package hold the wrong content ("+st+")", files)
			}
			if si == 0 {
				c.Sample(map[string]any{"debugdir_state": st, "packages": len(pkgs), "files_checked": checked})
			}
		}
	}()
}
