package main

import (
	"fmt"
	"go/ast"
	"go/parser"
	"go/scanner"
	"go/token"
	"go/types"
	"os"
	"path/filepath"
	"strconv"
	"strings"

	"golang.org/x/tools/go/packages"
	"golang.org/x/tools/go/types/objectpath"
)

// ---------------------------------------------------------------------------
// Name-map oracle: a lock-step walk of the original sources and the garbled
// sources actually handed to the compiler (saved by the KeepSource hook) gives
// {object -> obfuscated name} of a real build, without trusting garble's own
// bookkeeping. Only declaration skeletons are walked (names, type expressions,
// signatures), which literal obfuscation never changes.

type NameEntry struct {
	Key     string // stable object key, e.g. "mod/pkg.Type.Field"
	Kind    string // func method type var const field ifacemethod pkgname importpath
	Orig    string
	Obf     string
	Pkg     string // import path of the declaring package
	ObjPath string // objectpath within Pkg ("" when not API-reachable)
	Def     bool   // recorded at the defining occurrence
}

type NameMap struct {
	Entries    map[string]*NameEntry
	Conflicts  []string // one object seen with two different names
	Unaligned  []string // places where the two trees could not be walked in lock-step
	BadIdents  []string // garbled identifiers that are not valid Go identifiers
	FilesZip   int
	ImportPath map[string]string // original import path -> obfuscated import path (from import specs)
	PkgName    map[string]string // import path -> obfuscated package name (from package clauses)
}

type nmWalker struct {
	nm   *NameMap
	pkg  *packages.Package
	info *types.Info
	mods map[string]bool // import paths of the packages under study
}

func (w *nmWalker) record(key, kind, orig, obf, pkg string, def bool, obj types.Object) {
	if key == "" {
		return
	}
	e := w.nm.Entries[key]
	if e == nil {
		e = &NameEntry{Key: key, Kind: kind, Orig: orig, Obf: obf, Pkg: pkg}
		w.nm.Entries[key] = e
	} else if e.Obf != obf {
		w.nm.Conflicts = append(w.nm.Conflicts, fmt.Sprintf("%s is named %q in one place and %q in another (seen in %s)", key, e.Obf, obf, w.pkg.PkgPath))
	}
	if def {
		e.Def = true
		e.Kind = kind
		if obj != nil && e.ObjPath == "" {
			if p, err := objectpath.For(obj); err == nil {
				e.ObjPath = string(p)
			}
		}
	}
	if !token.IsIdentifier(obf) {
		w.nm.BadIdents = append(w.nm.BadIdents, fmt.Sprintf("%s -> %q", key, obf))
	}
}

// useKey returns the key of a package-level object referenced by an identifier.
func (w *nmWalker) useKey(obj types.Object) (key, kind string) {
	if obj == nil || obj.Pkg() == nil {
		return "", ""
	}
	if obj.Parent() != obj.Pkg().Scope() {
		return "", "" // locals, fields, methods: handled structurally
	}
	switch obj.(type) {
	case *types.TypeName:
		kind = "type"
	case *types.Func:
		kind = "func"
	case *types.Var:
		kind = "var"
	case *types.Const:
		kind = "const"
	default:
		return "", ""
	}
	return obj.Pkg().Path() + "." + obj.Name(), kind
}

func (w *nmWalker) unaligned(where string, o, g ast.Node) {
	w.nm.Unaligned = append(w.nm.Unaligned, fmt.Sprintf("%s: %s: %T vs %T", w.pkg.PkgPath, where, o, g))
}

// expr walks two type expressions in lock-step. prefix is the key of the enclosing declaration.
func (w *nmWalker) expr(o, g ast.Expr, prefix string) {
	if o == nil || g == nil {
		if (o == nil) != (g == nil) {
			w.unaligned(prefix, o, g)
		}
		return
	}
	switch o := o.(type) {
	case *ast.Ident:
		gi, ok := g.(*ast.Ident)
		if !ok {
			w.unaligned(prefix, o, g)
			return
		}
		obj := w.info.Uses[o]
		if obj == nil {
			obj = w.info.Defs[o]
		}
		if key, kind := w.useKey(obj); key != "" && w.mods[obj.Pkg().Path()] {
			w.record(key, kind, o.Name, gi.Name, obj.Pkg().Path(), false, nil)
		}
	case *ast.SelectorExpr:
		gs, ok := g.(*ast.SelectorExpr)
		if !ok {
			w.unaligned(prefix, o, g)
			return
		}
		obj := w.info.Uses[o.Sel]
		if key, kind := w.useKey(obj); key != "" && w.mods[obj.Pkg().Path()] {
			w.record(key, kind, o.Sel.Name, gs.Sel.Name, obj.Pkg().Path(), false, nil)
		}
	case *ast.StarExpr:
		if gs, ok := g.(*ast.StarExpr); ok {
			w.expr(o.X, gs.X, prefix)
		} else {
			w.unaligned(prefix, o, g)
		}
	case *ast.ParenExpr:
		if gs, ok := g.(*ast.ParenExpr); ok {
			w.expr(o.X, gs.X, prefix)
		} else {
			w.unaligned(prefix, o, g)
		}
	case *ast.ArrayType:
		if gs, ok := g.(*ast.ArrayType); ok {
			w.expr(o.Elt, gs.Elt, prefix)
		} else {
			w.unaligned(prefix, o, g)
		}
	case *ast.Ellipsis:
		if gs, ok := g.(*ast.Ellipsis); ok {
			w.expr(o.Elt, gs.Elt, prefix)
		} else {
			w.unaligned(prefix, o, g)
		}
	case *ast.MapType:
		if gs, ok := g.(*ast.MapType); ok {
			w.expr(o.Key, gs.Key, prefix)
			w.expr(o.Value, gs.Value, prefix)
		} else {
			w.unaligned(prefix, o, g)
		}
	case *ast.ChanType:
		if gs, ok := g.(*ast.ChanType); ok {
			w.expr(o.Value, gs.Value, prefix)
		} else {
			w.unaligned(prefix, o, g)
		}
	case *ast.IndexExpr:
		if gs, ok := g.(*ast.IndexExpr); ok {
			w.expr(o.X, gs.X, prefix)
			w.expr(o.Index, gs.Index, prefix)
		} else {
			w.unaligned(prefix, o, g)
		}
	case *ast.IndexListExpr:
		if gs, ok := g.(*ast.IndexListExpr); ok && len(gs.Indices) == len(o.Indices) {
			w.expr(o.X, gs.X, prefix)
			for i := range o.Indices {
				w.expr(o.Indices[i], gs.Indices[i], prefix)
			}
		} else {
			w.unaligned(prefix, o, g)
		}
	case *ast.FuncType:
		if gs, ok := g.(*ast.FuncType); ok {
			w.fieldTypes(o.TypeParams, gs.TypeParams, prefix)
			w.fieldTypes(o.Params, gs.Params, prefix)
			w.fieldTypes(o.Results, gs.Results, prefix)
		} else {
			w.unaligned(prefix, o, g)
		}
	case *ast.StructType:
		gs, ok := g.(*ast.StructType)
		if !ok || len(gs.Fields.List) != len(o.Fields.List) {
			w.unaligned(prefix, o, g)
			return
		}
		for i, f := range o.Fields.List {
			gf := gs.Fields.List[i]
			if len(f.Names) != len(gf.Names) {
				w.unaligned(prefix+" field", f, gf)
				continue
			}
			if len(f.Names) == 0 {
				// embedded field: its name is the type name; the field object is defined by the
				// (last) identifier of the type expression
				w.expr(f.Type, gf.Type, prefix)
				if oi, gi := embeddedIdent(f.Type), embeddedIdent(gf.Type); oi != nil && gi != nil {
					if fv, ok := w.info.Defs[oi].(*types.Var); ok && fv.Embedded() {
						w.record(prefix+"."+oi.Name+"(embedded)", "embedded", oi.Name, gi.Name, w.pkg.PkgPath, true, fv)
					}
				}
				continue
			}
			for j, n := range f.Names {
				if n.Name == "_" {
					continue
				}
				key := prefix + "." + n.Name
				w.record(key, "field", n.Name, gf.Names[j].Name, w.pkg.PkgPath, true, w.info.Defs[n])
				w.expr(f.Type, gf.Type, key)
			}
		}
	case *ast.InterfaceType:
		gs, ok := g.(*ast.InterfaceType)
		if !ok || len(gs.Methods.List) != len(o.Methods.List) {
			w.unaligned(prefix, o, g)
			return
		}
		for i, f := range o.Methods.List {
			gf := gs.Methods.List[i]
			if len(f.Names) != len(gf.Names) {
				w.unaligned(prefix+" method", f, gf)
				continue
			}
			if len(f.Names) == 0 {
				w.expr(f.Type, gf.Type, prefix)
				continue
			}
			for j, n := range f.Names {
				key := prefix + "." + n.Name
				w.record(key, "ifacemethod", n.Name, gf.Names[j].Name, w.pkg.PkgPath, true, w.info.Defs[n])
				w.expr(f.Type, gf.Type, key)
			}
		}
	case *ast.BinaryExpr: // constraint unions: A | B
		if gs, ok := g.(*ast.BinaryExpr); ok {
			w.expr(o.X, gs.X, prefix)
			w.expr(o.Y, gs.Y, prefix)
		} else {
			w.unaligned(prefix, o, g)
		}
	case *ast.UnaryExpr: // ~T
		if gs, ok := g.(*ast.UnaryExpr); ok {
			w.expr(o.X, gs.X, prefix)
		} else {
			w.unaligned(prefix, o, g)
		}
	case *ast.BasicLit:
	default:
		// array lengths and the like: not part of the skeleton
	}
}

func (w *nmWalker) fieldTypes(o, g *ast.FieldList, prefix string) {
	if o == nil || g == nil {
		if (o == nil) != (g == nil) {
			w.unaligned(prefix+" fieldlist", o, g)
		}
		return
	}
	if len(o.List) != len(g.List) {
		w.unaligned(prefix+" fieldlist", o, g)
		return
	}
	for i := range o.List {
		w.expr(o.List[i].Type, g.List[i].Type, prefix)
	}
}

// embeddedIdent returns the identifier that names an embedded field: T, *T, p.T, *p.T, T[A].
func embeddedIdent(e ast.Expr) *ast.Ident {
	for {
		switch x := e.(type) {
		case *ast.Ident:
			return x
		case *ast.StarExpr:
			e = x.X
		case *ast.ParenExpr:
			e = x.X
		case *ast.SelectorExpr:
			return x.Sel
		case *ast.IndexExpr:
			e = x.X
		case *ast.IndexListExpr:
			e = x.X
		default:
			return nil
		}
	}
}

func recvBase(e ast.Expr) string {
	switch e := e.(type) {
	case *ast.StarExpr:
		return recvBase(e.X)
	case *ast.ParenExpr:
		return recvBase(e.X)
	case *ast.IndexExpr:
		return recvBase(e.X)
	case *ast.IndexListExpr:
		return recvBase(e.X)
	case *ast.Ident:
		return e.Name
	}
	return "?"
}

func (w *nmWalker) file(of, gf *ast.File) {
	pp := w.pkg.PkgPath
	w.nm.FilesZip++
	w.nm.PkgName[pp] = gf.Name.Name
	// imports (the `_ "unsafe"` garble may add to main is ignored on both sides)
	filt := func(specs []*ast.ImportSpec) []*ast.ImportSpec {
		var out []*ast.ImportSpec
		for _, s := range specs {
			if p, _ := strconv.Unquote(s.Path.Value); p == "unsafe" && s.Name != nil && s.Name.Name == "_" {
				continue
			}
			out = append(out, s)
		}
		return out
	}
	oi, gi := filt(of.Imports), filt(gf.Imports)
	if len(oi) == len(gi) {
		for i := range oi {
			op, _ := strconv.Unquote(oi[i].Path.Value)
			gp, _ := strconv.Unquote(gi[i].Path.Value)
			real := op
			if w.pkg.Imports[op] != nil {
				real = w.pkg.Imports[op].PkgPath
			}
			if prev, ok := w.nm.ImportPath[real]; ok && prev != gp {
				w.nm.Conflicts = append(w.nm.Conflicts, fmt.Sprintf("import path %s is written %q and %q", real, prev, gp))
			}
			w.nm.ImportPath[real] = gp
		}
	} else {
		w.unaligned("imports", of, gf)
	}
	nonImport := func(f *ast.File) []ast.Decl {
		var out []ast.Decl
		for _, d := range f.Decls {
			if gd, ok := d.(*ast.GenDecl); ok && gd.Tok == token.IMPORT {
				continue
			}
			out = append(out, d)
		}
		return out
	}
	od, gd := nonImport(of), nonImport(gf)
	if len(gd) < len(od) {
		w.unaligned("decl count", of, gf)
		return
	}
	for i, d := range od {
		switch d := d.(type) {
		case *ast.FuncDecl:
			g, ok := gd[i].(*ast.FuncDecl)
			if !ok {
				w.unaligned("decl", d, gd[i])
				continue
			}
			key := pp + "." + d.Name.Name
			kind := "func"
			if d.Recv != nil && len(d.Recv.List) == 1 {
				key = pp + "." + recvBase(d.Recv.List[0].Type) + "." + d.Name.Name
				kind = "method"
				if g.Recv != nil && len(g.Recv.List) == 1 {
					w.expr(d.Recv.List[0].Type, g.Recv.List[0].Type, key)
				}
			}
			if d.Name.Name != "_" && !(kind == "func" && d.Name.Name == "init") {
				w.record(key, kind, d.Name.Name, g.Name.Name, pp, true, w.info.Defs[d.Name])
			}
			w.expr(d.Type, g.Type, key)
		case *ast.GenDecl:
			g, ok := gd[i].(*ast.GenDecl)
			if !ok || len(g.Specs) != len(d.Specs) {
				w.unaligned("gendecl", d, gd[i])
				continue
			}
			for j, s := range d.Specs {
				switch s := s.(type) {
				case *ast.TypeSpec:
					gs, ok := g.Specs[j].(*ast.TypeSpec)
					if !ok {
						continue
					}
					key := pp + "." + s.Name.Name
					w.record(key, "type", s.Name.Name, gs.Name.Name, pp, true, w.info.Defs[s.Name])
					w.fieldTypes(s.TypeParams, gs.TypeParams, key)
					w.expr(s.Type, gs.Type, key)
				case *ast.ValueSpec:
					gs, ok := g.Specs[j].(*ast.ValueSpec)
					if !ok || len(gs.Names) != len(s.Names) {
						continue
					}
					kind := "var"
					if d.Tok == token.CONST {
						kind = "const"
					}
					for k, n := range s.Names {
						if n.Name == "_" {
							continue
						}
						key := pp + "." + n.Name
						w.record(key, kind, n.Name, gs.Names[k].Name, pp, true, w.info.Defs[n])
						if s.Type != nil && gs.Type != nil {
							w.expr(s.Type, gs.Type, key)
						}
					}
				}
			}
		}
	}
}

// buildNameMap loads the original packages under dir (patterns, with build flags)
// and zips them with the garbled sources kept below keptDir.
func buildNameMap(dir, keptDir string, buildFlags []string, env []string, patterns ...string) (*NameMap, error) {
	cfg := &packages.Config{
		Mode:       packages.NeedName | packages.NeedFiles | packages.NeedCompiledGoFiles | packages.NeedSyntax | packages.NeedTypes | packages.NeedTypesInfo | packages.NeedImports,
		Dir:        dir,
		Env:        env,
		BuildFlags: buildFlags,
	}
	pkgs, err := packages.Load(cfg, patterns...)
	if err != nil {
		return nil, err
	}
	nm := &NameMap{Entries: map[string]*NameEntry{}, ImportPath: map[string]string{}, PkgName: map[string]string{}}
	mods := map[string]bool{}
	for _, p := range pkgs {
		if len(p.Errors) > 0 {
			return nil, fmt.Errorf("loading %s: %v", p.PkgPath, p.Errors[0])
		}
		mods[p.PkgPath] = true
	}
	for _, p := range pkgs {
		w := &nmWalker{nm: nm, pkg: p, info: p.TypesInfo, mods: mods}
		for i, f := range p.Syntax {
			base := filepath.Base(p.CompiledGoFiles[i])
			gpath := filepath.Join(keptDir, filepath.FromSlash(p.PkgPath), base)
			src, err := os.ReadFile(gpath)
			if err != nil {
				nm.Unaligned = append(nm.Unaligned, "missing garbled source "+gpath)
				continue
			}
			fset := token.NewFileSet()
			gf, err := parser.ParseFile(fset, base, src, parser.SkipObjectResolution)
			if err != nil {
				nm.Unaligned = append(nm.Unaligned, "garbled source does not parse: "+err.Error())
				continue
			}
			w.file(f, gf)
			// every identifier token of the garbled file must scan as an identifier
			var s scanner.Scanner
			sf := fset.AddFile("", fset.Base(), len(src))
			s.Init(sf, src, nil, 0)
			for {
				_, tok, lit := s.Scan()
				if tok == token.EOF {
					break
				}
				if tok == token.IDENT && !token.IsIdentifier(lit) {
					nm.BadIdents = append(nm.BadIdents, lit)
				}
			}
		}
	}
	return nm, nil
}

// obfuscated reports the entries whose name was actually changed.
func (nm *NameMap) obfuscated() []*NameEntry {
	var out []*NameEntry
	for _, k := range sortedKeys(nm.Entries) {
		e := nm.Entries[k]
		if e.Obf != e.Orig {
			out = append(out, e)
		}
	}
	return out
}

func (nm *NameMap) summary() string {
	kinds := map[string]int{}
	for _, e := range nm.Entries {
		if e.Obf != e.Orig {
			kinds[e.Kind]++
		}
	}
	var parts []string
	for _, k := range sortedKeys(kinds) {
		parts = append(parts, fmt.Sprintf("%s=%d", k, kinds[k]))
	}
	return strings.Join(parts, " ")
}
