package main

import (
	"bytes"
	"crypto/sha256"
	"encoding/hex"
	"encoding/json"
	"errors"
	"fmt"
	"io"
	"io/fs"
	"math/rand"
	"os"
	"os/exec"
	"path/filepath"
	"sort"
	"strings"
	"sync"
	"syscall"
	"time"
)

// ---------------------------------------------------------------------------
// Locations.

var (
	verifRoot = envOr("VERIF_ROOT", "/verif")
	repoRoot  = envOr("VERIF_REPO", "/repo")
	workDir   = filepath.Join(verifRoot, ".work")
)

func envOr(k, def string) string {
	if v := os.Getenv(k); v != "" {
		return v
	}
	return def
}

// toolchainRoot returns the GOROOT of the Go toolchain used for everything.
// Preference: the toolchain the repository's own baseline auto-selects.
var toolchainRoot = sync.OnceValue(func() string {
	if v := os.Getenv("VERIF_GOROOT"); v != "" {
		return v
	}
	cands := []string{
		"/root/go/pkg/mod/golang.org/toolchain@v0.0.1-go1.26.2.linux-amd64",
		"/opt/veriftools/go1.26.8",
		"/opt/veriftools/go1.26",
	}
	for _, c := range cands {
		if st, err := os.Stat(filepath.Join(c, "bin", "go")); err == nil && !st.IsDir() {
			return c
		}
	}
	fatalf("no usable Go 1.26 toolchain found")
	return ""
})

const altToolchainRoot = "/opt/veriftools/go1.26.8"

func fatalf(format string, a ...any) {
	fmt.Fprintf(os.Stderr, "ERROR: "+format+"\n", a...)
	os.Exit(2)
}

// baseEnv is the environment for every child: a fixed, offline Go setup.
func baseEnvFor(goroot string, extra ...string) []string {
	env := []string{
		"PATH=" + filepath.Join(goroot, "bin") + ":/usr/local/sbin:/usr/local/bin:/usr/sbin:/usr/bin:/sbin:/bin",
		"HOME=/root",
		"LANG=C",
		"LC_ALL=C",
		"GOTOOLCHAIN=local",
		"GOFLAGS=-mod=mod",
		"GOPROXY=off",
		"GOSUMDB=off",
		"GONOSUMDB=*",
		"GOTELEMETRY=off",
		"GIT_CONFIG_NOSYSTEM=1",
	}
	return append(env, extra...)
}

func baseEnv(extra ...string) []string { return baseEnvFor(toolchainRoot(), extra...) }

// ---------------------------------------------------------------------------
// Subprocess runner with watchdog.

type Cmd struct {
	Dir     string
	Env     []string
	Argv    []string
	Stdin   []byte
	Timeout time.Duration // watchdog; firing means inconclusive
	// FileIO sends stdout/stderr to regular files instead of pipes. Programs that print with the
	// println builtin need it: the runtime issues one write(2) per piece and never retries a short
	// count, so a write to a *full pipe* that a signal (async preemption) interrupts loses the rest
	// of the piece. Regular files never return short counts.
	FileIO bool
}

type Res struct {
	RC       int
	Out, Err []byte
	TimedOut bool
	Dur      time.Duration
	StartErr error
}

func (r Res) OK() bool { return r.RC == 0 && !r.TimedOut && r.StartErr == nil }

func (r Res) String() string {
	return fmt.Sprintf("rc=%d timedout=%v dur=%s\n--stdout--\n%s\n--stderr--\n%s", r.RC, r.TimedOut, r.Dur.Truncate(time.Millisecond), clip(r.Out, 4000), clip(r.Err, 6000))
}

func clip(b []byte, n int) string {
	if len(b) <= n {
		return string(b)
	}
	return string(b[:n/2]) + "\n...[clipped]...\n" + string(b[len(b)-n/2:])
}

func Run(c Cmd) Res {
	if c.Timeout == 0 {
		c.Timeout = 10 * time.Minute
	}
	cmd := exec.Command(c.Argv[0], c.Argv[1:]...)
	cmd.Dir = c.Dir
	cmd.Env = c.Env
	if c.Stdin != nil {
		cmd.Stdin = bytes.NewReader(c.Stdin)
	}
	var out, errb bytes.Buffer
	var outF, errF *os.File
	if c.FileIO {
		dir := scratchRoot
		if dir == "" {
			dir = os.TempDir()
		}
		var e1, e2 error
		outF, e1 = os.CreateTemp(dir, "stdout-*")
		errF, e2 = os.CreateTemp(dir, "stderr-*")
		if e1 != nil || e2 != nil {
			return Res{RC: -1, StartErr: fmt.Errorf("cannot create output files: %v %v", e1, e2)}
		}
		defer func() {
			for _, f := range []*os.File{outF, errF} {
				f.Close()
				os.Remove(f.Name())
			}
		}()
		cmd.Stdout, cmd.Stderr = outF, errF
	} else {
		cmd.Stdout = &out
		cmd.Stderr = &errb
	}
	cmd.SysProcAttr = &syscall.SysProcAttr{Setpgid: true}
	// If a grandchild keeps the pipes open after we kill, don't wait forever.
	cmd.WaitDelay = 5 * time.Second
	start := time.Now()
	if err := cmd.Start(); err != nil {
		return Res{RC: -1, StartErr: err}
	}
	done := make(chan error, 1)
	go func() { done <- cmd.Wait() }()
	var res Res
	select {
	case err := <-done:
		res.RC = exitCode(err)
	case <-time.After(c.Timeout):
		syscall.Kill(-cmd.Process.Pid, syscall.SIGKILL)
		<-done
		res.RC = -1
		res.TimedOut = true
	}
	res.Out, res.Err, res.Dur = out.Bytes(), errb.Bytes(), time.Since(start)
	if c.FileIO {
		res.Out, _ = os.ReadFile(outF.Name())
		res.Err, _ = os.ReadFile(errF.Name())
	}
	return res
}

func exitCode(err error) int {
	if err == nil {
		return 0
	}
	var ee *exec.ExitError
	if errors.As(err, &ee) {
		if ws, ok := ee.Sys().(syscall.WaitStatus); ok {
			if ws.Signaled() {
				return 128 + int(ws.Signal())
			}
			return ws.ExitStatus()
		}
		return ee.ExitCode()
	}
	return -1
}

// ---------------------------------------------------------------------------
// Small helpers.

func must(err error) {
	if err != nil {
		panic(err)
	}
}

func sha256hex(b []byte) string {
	s := sha256.Sum256(b)
	return hex.EncodeToString(s[:])
}

func fileSha(path string) string {
	f, err := os.Open(path)
	if err != nil {
		return "ERR:" + err.Error()
	}
	defer f.Close()
	h := sha256.New()
	io.Copy(h, f)
	return hex.EncodeToString(h.Sum(nil))
}

func writeTree(dir string, files map[string]string) {
	for name, content := range files {
		p := filepath.Join(dir, name)
		must(os.MkdirAll(filepath.Dir(p), 0o755))
		must(os.WriteFile(p, []byte(content), 0o644))
	}
}

func copyTree(src, dst string) error {
	// cp -a is much faster than walking in Go for cache directories.
	if err := os.MkdirAll(filepath.Dir(dst), 0o755); err != nil {
		return err
	}
	out, err := exec.Command("cp", "-a", src, dst).CombinedOutput()
	if err != nil {
		return fmt.Errorf("cp -a %s %s: %v: %s", src, dst, err, out)
	}
	return nil
}

func exists(p string) bool { _, err := os.Lstat(p); return err == nil }

func sortedKeys[V any](m map[string]V) []string {
	ks := make([]string, 0, len(m))
	for k := range m {
		ks = append(ks, k)
	}
	sort.Strings(ks)
	return ks
}

// listFiles returns relative paths of all regular files (and symlinks) below dir.
func listFiles(dir string) []string {
	var out []string
	filepath.WalkDir(dir, func(p string, d fs.DirEntry, err error) error {
		if err != nil {
			return nil
		}
		if !d.IsDir() {
			rel, _ := filepath.Rel(dir, p)
			out = append(out, rel)
		}
		return nil
	})
	sort.Strings(out)
	return out
}

// snapshotTree returns path -> "mode size sha256" for everything under dir (dirs included).
func snapshotTree(dir string) map[string]string {
	m := map[string]string{}
	filepath.WalkDir(dir, func(p string, d fs.DirEntry, err error) error {
		if err != nil {
			return nil
		}
		rel, _ := filepath.Rel(dir, p)
		info, err := os.Lstat(p)
		if err != nil {
			return nil
		}
		switch {
		case info.Mode()&os.ModeSymlink != 0:
			t, _ := os.Readlink(p)
			m[rel] = fmt.Sprintf("L %s -> %s", info.Mode(), t)
		case info.IsDir():
			m[rel] = fmt.Sprintf("D %s", info.Mode())
		default:
			m[rel] = fmt.Sprintf("F %s %d %s", info.Mode(), info.Size(), fileSha(p))
		}
		return nil
	})
	return m
}

func diffSnap(a, b map[string]string) []string {
	var out []string
	for k, v := range a {
		if w, ok := b[k]; !ok {
			out = append(out, "removed: "+k)
		} else if w != v {
			out = append(out, fmt.Sprintf("changed: %s: %s => %s", k, v, w))
		}
	}
	for k := range b {
		if _, ok := a[k]; !ok {
			out = append(out, "added: "+k+" "+b[k])
		}
	}
	sort.Strings(out)
	return out
}

// parallel runs fn over n items with at most w workers.
func parallel(n, w int, fn func(i int)) {
	if w < 1 {
		w = 1
	}
	var wg sync.WaitGroup
	ch := make(chan int)
	for k := 0; k < w; k++ {
		wg.Add(1)
		go func() {
			defer wg.Done()
			for i := range ch {
				fn(i)
			}
		}()
	}
	for i := 0; i < n; i++ {
		ch <- i
	}
	close(ch)
	wg.Wait()
}

// subRand derives an independent deterministic PRNG from (seed, labels...).
func subRand(seed int64, labels ...any) *rand.Rand {
	h := sha256.New()
	fmt.Fprintf(h, "%d", seed)
	for _, l := range labels {
		fmt.Fprintf(h, "|%v", l)
	}
	s := h.Sum(nil)
	var x int64
	for i := 0; i < 8; i++ {
		x = x<<8 | int64(s[i])
	}
	return rand.New(rand.NewSource(x))
}

func jsonStr(v any) string {
	b, _ := json.Marshal(v)
	return string(b)
}

func lines(b []byte) []string {
	s := strings.TrimRight(string(b), "\n")
	if s == "" {
		return nil
	}
	return strings.Split(s, "\n")
}

// withLock runs fn holding an exclusive flock on path.
func withLock(path string, fn func()) {
	must(os.MkdirAll(filepath.Dir(path), 0o755))
	f, err := os.OpenFile(path, os.O_CREATE|os.O_RDWR, 0o644)
	must(err)
	defer f.Close()
	must(syscall.Flock(int(f.Fd()), syscall.LOCK_EX))
	defer syscall.Flock(int(f.Fd()), syscall.LOCK_UN)
	fn()
}
