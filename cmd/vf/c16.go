package main

import (
	"crypto/sha256"
	"encoding/base64"
	"encoding/hex"
	"encoding/json"
	"fmt"
	"go/token"
	"os"
	"path/filepath"
	"regexp"
	"strconv"
	"time"
)

func init() { register("C16", "exploration", checkC16) }

var rxObfName = regexp.MustCompile(`^[A-Za-z_][A-Za-z0-9_]{5,11}$`)

func checkC16(c *Ctx) {
	c.SetRule("(1) in-process driver: the current tree's naming function on PRNG-generated (salt, seed, name) triples, " +
		"names = ASCII/Unicode identifiers (exported/unexported), import paths, file:offset strings; oracle = regexp + token.IsIdentifier, " +
		"exportedness equality, interleaved repeat calls, per-salt clash classification by independently recomputed sha256 prefix. " +
		"(2) hook stream of real builds: every naming-function application of a garble-cold build (std + program) checked for the same predicates " +
		"and for purity/clashes per (salt,seed). distinct_nontrivial = distinct (salt,seed,name) inputs observed.")
	c.Assume("sha256 prefix collisions (36+ bit) among <=10^4 names per salt do not occur by chance for the fixed PRNG seeds used")

	// Part 1: in-process driver.
	salts, per := c.pick(24, 400), c.pick(4000, 10000)
	out := filepath.Join(scratch("c16"), "report.json")
	r := runDriver(".", "c16_driver_test.go", "^TestVerifC16$", []string{
		"VERIF_OUT=" + out, fmt.Sprintf("VERIF_SEED=%d", c.Seed), fmt.Sprintf("VERIF_SALTS=%d", salts), fmt.Sprintf("VERIF_PER_SALT=%d", per),
	}, 30*time.Minute, "")
	data, err := os.ReadFile(out)
	if err != nil {
		if r.TimedOut {
			c.Inconclusive("driver watchdog fired")
		} else {
			// The driver itself could not run on this tree: the naming function
			// panicked or the package does not compile with the driver.
			c.Violate("driver/crash", "in-process naming driver failed:\n"+r.String(), nil)
		}
	} else {
		var rep struct {
			Calls          int            `json:"calls"`
			DistinctInputs int            `json:"distinct_inputs"`
			Salts          int            `json:"salts"`
			LeadCoverage   map[string]int `json:"lead_coverage"`
			LeadMissing    []string       `json:"lead_missing"`
			Lengths        map[string]int `json:"lengths"`
			ByClass        map[string]int `json:"by_class"`
			PurityRepeats  int            `json:"purity_repeats"`
			LongNames      int            `json:"long_names_sharing_prefixes"`
			GenuineColl    int            `json:"genuine_collisions"`
			Violations     []map[string]any `json:"violations"`
			Samples        []map[string]any `json:"samples"`
		}
		must(json.Unmarshal(data, &rep))
		c.EvalN(rep.Calls)
		c.mu.Lock()
		for i := 0; i < rep.DistinctInputs; i++ {
			c.nontrivial[fmt.Sprintf("drv#%d", i)] = true // distinct by construction (deduplicated in the driver)
		}
		c.mu.Unlock()
		c.Extra("driver_lead_symbol_coverage", rep.LeadCoverage)
		c.Extra("driver_lead_symbols_missing", rep.LeadMissing)
		c.Extra("driver_length_histogram", rep.Lengths)
		c.Extra("driver_by_class", rep.ByClass)
		c.Count("driver.calls", rep.Calls)
		c.Count("driver.salts", rep.Salts)
		c.Count("driver.purity_repeats", rep.PurityRepeats)
		c.Count("driver.long_names_sharing_prefixes", rep.LongNames)
		c.Count("driver.genuine_hash_collisions", rep.GenuineColl)
		for _, s := range rep.Samples {
			c.Sample(s)
		}
		for _, v := range rep.Violations {
			c.Violate("naming/"+fmt.Sprint(v["kind"]), jsonStr(v), map[string]string{"witness.json": jsonStr(v)})
		}
		for l := 6; l <= 12; l++ {
			if rep.Lengths[strconv.Itoa(l)] == 0 {
				c.Inconclusive(fmt.Sprintf("driver never produced a name of length %d", l))
			}
		}
	}

	// Part 2: hook stream of real garble-cold builds.
	g := buildGarble("", false)
	cfgs := []Config{K0, K3}
	if !c.Quick() {
		cfgs = []Config{K0, K1, K3, K5}
	}
	parallel(len(cfgs), 4, func(i int) {
		cfg := cfgs[i]
		box := newColdBox("c16cold", true)
		src := scratch("c16src")
		writeTree(src, warmProgram)
		logDir := scratch("c16log")
		r := box.Garble(g, cfg, src, 20*time.Minute, []string{"GARBLE_VERIF_LOG=" + logDir, "GARBLE_VERIF_NAMES=1"}, "build", "-o", filepath.Join(src, "out.bin"), ".")
		if r.TimedOut {
			c.Inconclusive("cold build watchdog fired for " + cfg.Name)
			return
		}
		if !r.OK() {
			c.Violate("build/fails", "garble build of the warm program failed under "+cfg.Key()+"\n"+r.String(), nil)
			return
		}
		checkHashStream(c, cfg, readEvents(logDir))
	})
}

var nameB64 = base64.URLEncoding.WithPadding(base64.NoPadding)

func checkHashStream(c *Ctx, cfg Config, evs []Event) {
	type key struct{ salt, seed, name string }
	seen := map[key]string{}
	byOut := map[[3]string]string{} // salt,seed,out -> name
	n := 0
	for _, e := range evs {
		if e.Kind != "hash" {
			continue
		}
		n++
		salt, seed, name, out := e.Str("salt"), e.Str("seed"), e.Str("name"), e.Str("out")
		k := key{salt, seed, name}
		if prev, ok := seen[k]; ok {
			if prev != out {
				c.Violate("naming/impure", fmt.Sprintf("%s: (salt=%s seed=%s name=%q) gave %q and %q within one build", cfg.Name, salt, seed, name, prev, out), nil)
			}
			continue
		}
		seen[k] = out
		c.Nontrivial("ev|" + cfg.Name + "|" + salt + "|" + name)
		if !rxObfName.MatchString(out) || !token.IsIdentifier(out) {
			c.Violate("naming/malformed", fmt.Sprintf("%s: name %q obfuscated to %q", cfg.Name, name, out), nil)
		}
		if token.IsIdentifier(name) && token.IsExported(name) != token.IsExported(out) {
			c.Violate("naming/exportedness", fmt.Sprintf("%s: name %q obfuscated to %q", cfg.Name, name, out), nil)
		}
		ok3 := [3]string{salt, seed, out}
		if prev, clash := byOut[ok3]; clash && prev != name {
			if !genuineClash(salt, seed, prev, name) {
				c.Violate("naming/collision", fmt.Sprintf("%s: %q and %q both obfuscate to %q under salt %s", cfg.Name, prev, name, out, salt), nil)
			} else {
				c.Count("builds.genuine_hash_collisions", 1)
			}
		}
		byOut[ok3] = name
	}
	c.EvalN(n)
	c.Count("builds.hash_events."+cfg.Name, n)
	c.Count("builds.distinct_inputs."+cfg.Name, len(seen))
	if n == 0 {
		c.Inconclusive("no hash events observed for " + cfg.Name)
	}
}

// genuineClash recomputes sha256(salt|seed|name) for both names and reports
// whether their 36-bit base64 prefixes agree modulo the documented fix-ups.
func genuineClash(saltHex, seedHex, a, b string) bool {
	salt, _ := hex.DecodeString(saltHex)
	seed, _ := hex.DecodeString(seedHex)
	pre := func(name string) string {
		h := sha256.New()
		h.Write(salt)
		h.Write(seed)
		h.Write([]byte(name))
		sum := h.Sum(nil)
		buf := make([]byte, 12)
		nameB64.Encode(buf, sum[:9])
		p := buf[:6]
		if p[0] >= '0' && p[0] <= '9' {
			p[0] += 'A' - '0'
		}
		for i := range p {
			if p[i] == '-' {
				p[i] = 'a'
			}
		}
		if p[0] == '_' {
			p[0] = 'z'
		}
		if p[0] >= 'A' && p[0] <= 'Z' {
			p[0] += 'a' - 'A'
		}
		return string(p)
	}
	return pre(a) == pre(b)
}
