package main

import (
	"fmt"
	"math/rand"
	"strings"
)

// ---------------------------------------------------------------------------
// Call-chain program generator (C04): argv[1] selects a chain; every chain ends
// in a panic, a debug.PrintStack or a runtime.Callers dump.

type ChainInfo struct {
	Terminal string   // panic | printstack | callers
	Kinds    []string // frame kinds, outermost first
}

type ChainProg struct {
	Prog   *Prog
	Chains []ChainInfo
}

var chainKinds = []string{"func", "valmethod", "ptrmethod", "genfunc", "genmethod", "closurevar", "nested", "deferred", "goroutine", "golit", "deferlit", "iife", "methodvalue", "methodexpr", "ifacecall", "promoted", "fieldfunc"}

func genChainProg(r *rand.Rand, nchains int, kinds []string) *ChainProg {
	mod := "zqchain" + randLower(r, 5) + ".example.com/tr"
	pkgs := []string{"main", "zqliba", "zqlibb"}
	// zqlibb lives in a directory whose name contains a dot (like gopkg.in/yaml.v2): the toolchain
	// escapes the last element of such a path in symbol names ("…/zqlibb%2ev2.Func") but not in positions.
	dirOf := map[string]string{"main": "", "zqliba": "zqliba", "zqlibb": "zqlibb.v2"}
	// per package, two files
	bodies := map[string]*strings.Builder{}
	for _, p := range pkgs {
		for _, f := range []string{"x", "y"} {
			bodies[p+"/"+f] = &strings.Builder{}
		}
	}
	qual := func(from, to, name string) string {
		if from == to {
			return name
		}
		return to + "." + name
	}
	cp := &ChainProg{}
	var mainSwitch strings.Builder
	typesDeclared := map[string]bool{}
	for ci := 0; ci < nchains; ci++ {
		n := 3 + r.Intn(5)
		terminal := []string{"panic", "printstack", "callers"}[ci%3]
		info := ChainInfo{Terminal: terminal}
		// non-decreasing package levels along the chain
		levels := make([]int, n)
		lv := 0
		for i := range levels {
			if r.Intn(3) == 0 && lv < 2 {
				lv++
			}
			levels[i] = lv
		}
		if ci == 0 {
			// the first chain always crosses all three packages
			for i := range levels {
				levels[i] = min(i, 2)
			}
		}
		names := make([]string, n+1) // exported entry name of each frame; names[n] = terminal
		for i := range names {
			names[i] = fmt.Sprintf("ZqC%dF%d%s", ci, i, randAlnum(r, 5))
		}
		// The first frame of the chain in each package has the same name in every package: one
		// original identifier with a different obfuscated spelling per package in a single trace.
		sameName := fmt.Sprintf("ZqC%dSame%s", ci, randAlnum(r, 5))
		seenLevel := map[int]bool{}
		for i := 0; i < n; i++ {
			if !seenLevel[levels[i]] {
				seenLevel[levels[i]] = true
				names[i] = sameName
			}
		}
		// terminal function lives in the last frame's package
		lastPkg := pkgs[levels[n-1]]
		tb := bodies[lastPkg+"/y"]
		switch terminal {
		case "panic":
			fmt.Fprintf(tb, "//go:noinline\nfunc %s(k int) int {\n\tif k >= 0 {\n\t\tpanic(\"zq-chain-panic\")\n\t}\n\treturn k\n}\n\n", names[n])
		case "printstack":
			fmt.Fprintf(tb, "//go:noinline\nfunc %s(k int) int {\n\tdebug.PrintStack()\n\treturn k\n}\n\n", names[n])
		case "callers":
			fmt.Fprintf(tb, "//go:noinline\nfunc %s(k int) int {\n\tpcs := make([]uintptr, 32)\n\tn := runtime.Callers(1, pcs)\n\tfr := runtime.CallersFrames(pcs[:n])\n\tfor {\n\t\tf, more := fr.Next()\n\t\tfmt.Fprintf(os.Stderr, \"%%s\\n\\t%%s:%%d\\n\", f.Function, f.File, f.Line)\n\t\tif !more {\n\t\t\tbreak\n\t\t}\n\t}\n\treturn k\n}\n\n", names[n])
		}
		for i := n - 1; i >= 0; i-- {
			pkg := pkgs[levels[i]]
			nextPkg := lastPkg
			if i < n-1 {
				nextPkg = pkgs[levels[i+1]]
			}
			next := qual(pkg, nextPkg, names[i+1])
			file := []string{"x", "y"}[r.Intn(2)]
			b := bodies[pkg+"/"+file]
			kind := kinds[r.Intn(len(kinds))]
			info.Kinds = append([]string{kind}, info.Kinds...)
			tname := fmt.Sprintf("ZqT%d_%d", ci, i)
			switch kind {
			case "deferred", "deferlit", "iife":
				// This frame will sit at a return site or at the closing "}()" of a literal,
				// not at a call site: only its file is compared (see checkC04).
				names[i] += "Zqnopos"
			}
			switch kind {
			case "golit":
				// a parameterless multi-line function literal whose body starts with a call
				fmt.Fprintf(b, "//go:noinline\nfunc zqhop%[1]d_%[2]d(k int, done chan int) {\n\tdone <- %[4]s(k) + 1\n}\n\n//go:noinline\nfunc %[3]s(k int) int {\n\tdone := make(chan int)\n\tgo func() {\n\t\tzqhop%[1]d_%[2]d(k, done)\n\t}()\n\treturn <-done\n}\n\n", ci, i, names[i], next)
			case "deferlit":
				fmt.Fprintf(b, "//go:noinline\nfunc zqhop%[1]d_%[2]d(k int, r *int) {\n\t*r = %[4]s(k) + 1\n}\n\n//go:noinline\nfunc %[3]s(k int) (r int) {\n\tdefer func() {\n\t\tzqhop%[1]d_%[2]d(k, &r)\n\t}()\n\tk++\n\treturn k\n}\n\n", ci, i, names[i], next)
			case "iife":
				fmt.Fprintf(b, "//go:noinline\nfunc zqhop%[1]d_%[2]d(k int, r *int) {\n\t*r = %[4]s(k) + 1\n}\n\n//go:noinline\nfunc %[3]s(k int) int {\n\tres := 0\n\tfunc() {\n\t\tzqhop%[1]d_%[2]d(k, &res)\n\t}()\n\treturn res + 1\n}\n\n", ci, i, names[i], next)
			case "func":
				fmt.Fprintf(b, "//go:noinline\nfunc %s(k int) int {\n\tk++\n\treturn %s(k) + 1\n}\n\n", names[i], next)
			case "valmethod":
				fmt.Fprintf(b, "type %[1]s struct{ n int }\n\n//go:noinline\nfunc (t %[1]s) zqm(k int) int {\n\treturn %[3]s(k+t.n) + 1\n}\n\n//go:noinline\nfunc %[2]s(k int) int {\n\treturn %[1]s{n: 1}.zqm(k) + 1\n}\n\n", tname, names[i], next)
			case "ptrmethod":
				fmt.Fprintf(b, "type %[1]s struct{ n int }\n\n//go:noinline\nfunc (t *%[1]s) ZqPM(k int) int {\n\tt.n++\n\treturn %[3]s(k+t.n) + 1\n}\n\n//go:noinline\nfunc %[2]s(k int) int {\n\tt := &%[1]s{}\n\treturn t.ZqPM(k) + 1\n}\n\n", tname, names[i], next)
			case "genfunc":
				fmt.Fprintf(b, "//go:noinline\nfunc zqgen%[1]d_%[2]d[X any](x X, k int) int {\n\t_ = x\n\treturn %[4]s(k) + 1\n}\n\n//go:noinline\nfunc %[3]s(k int) int {\n\treturn zqgen%[1]d_%[2]d(\"s\", k) + 1\n}\n\n", ci, i, names[i], next)
			case "genmethod":
				fmt.Fprintf(b, "type %[1]s[X any] struct{ v X }\n\n//go:noinline\nfunc (g %[1]s[X]) ZqGM(k int) int {\n\treturn %[3]s(k) + 1\n}\n\n//go:noinline\nfunc %[2]s(k int) int {\n\treturn %[1]s[string]{v: \"x\"}.ZqGM(k) + 1\n}\n\n", tname, names[i], next)
			case "closurevar":
				fmt.Fprintf(b, "var zqclos%[1]d_%[2]d = func(k int) int {\n\treturn %[4]s(k) + 1\n}\n\n//go:noinline\nfunc %[3]s(k int) int {\n\treturn zqclos%[1]d_%[2]d(k) + 1\n}\n\n", ci, i, names[i], next)
			case "nested":
				fmt.Fprintf(b, "//go:noinline\nfunc %[1]s(k int) int {\n\tf := func(a int) int {\n\t\tg := func(b int) int {\n\t\t\treturn %[2]s(b) + 1\n\t\t}\n\t\treturn g(a) + 1\n\t}\n\treturn f(k) + 1\n}\n\n", names[i], next)
			case "deferred":
				fmt.Fprintf(b, "//go:noinline\nfunc zqdef%[1]d_%[2]d(k int, r *int) {\n\t*r = %[4]s(k) + 1\n}\n\n//go:noinline\nfunc %[3]s(k int) (r int) {\n\tdefer zqdef%[1]d_%[2]d(k, &r)\n\tk++\n\treturn k\n}\n\n", ci, i, names[i], next)
			case "methodvalue":
				// bound method value: the -fm wrapper is hidden from traces, the method frame is not
				fmt.Fprintf(b, "type %[1]s struct{ n int }\n\n//go:noinline\nfunc (t %[1]s) zqmv(k int) int {\n\treturn %[3]s(k+t.n) + 1\n}\n\n//go:noinline\nfunc %[2]s(k int) int {\n\tf := %[1]s{n: 2}.zqmv\n\treturn f(k) + 1\n}\n\n", tname, names[i], next)
			case "methodexpr":
				fmt.Fprintf(b, "type %[1]s struct{ n int }\n\n//go:noinline\nfunc (t *%[1]s) ZqME(k int) int {\n\treturn %[3]s(k+t.n) + 1\n}\n\n//go:noinline\nfunc %[2]s(k int) int {\n\tf := (*%[1]s).ZqME\n\treturn f(&%[1]s{n: 3}, k) + 1\n}\n\n", tname, names[i], next)
			case "ifacecall":
				// dynamic call through an interface with an unexported method
				fmt.Fprintf(b, "type %[1]sI interface{ zqim(int) int }\n\ntype %[1]s struct{ n int }\n\n//go:noinline\nfunc (t *%[1]s) zqim(k int) int {\n\treturn %[3]s(k+t.n) + 1\n}\n\n//go:noinline\nfunc %[2]s(k int) int {\n\tvar i %[1]sI = &%[1]s{n: 4}\n\treturn i.zqim(k) + 1\n}\n\n", tname, names[i], next)
			case "promoted":
				// method promoted from an embedded pointer, called through an interface: the generated
				// wrapper Outer.ZqProm is hidden, (*Inner).ZqProm is the visible frame
				fmt.Fprintf(b, "type %[1]sIn struct{ n int }\n\n//go:noinline\nfunc (t *%[1]sIn) ZqProm(k int) int {\n\treturn %[3]s(k+t.n) + 1\n}\n\ntype %[1]s struct {\n\t*%[1]sIn\n\tzqpad int\n}\n\n//go:noinline\nfunc %[2]s(k int) int {\n\tvar i interface{ ZqProm(int) int } = %[1]s{%[1]sIn: &%[1]sIn{n: 5}}\n\treturn i.ZqProm(k) + 1\n}\n\n", tname, names[i], next)
			case "fieldfunc":
				// function literal stored in a struct field of a package-level variable
				fmt.Fprintf(b, "type %[1]s struct{ zqfn func(int) int }\n\nvar zqff%[4]d_%[5]d = %[1]s{zqfn: func(k int) int {\n\treturn %[3]s(k) + 1\n}}\n\n//go:noinline\nfunc %[2]s(k int) int {\n\treturn zqff%[4]d_%[5]d.zqfn(k) + 1\n}\n\n", tname, names[i], next, ci, i)
			case "goroutine":
				fmt.Fprintf(b, "//go:noinline\nfunc zqgo%[1]d_%[2]d(k int, done chan int) {\n\tdone <- %[4]s(k) + 1\n}\n\n//go:noinline\nfunc %[3]s(k int) int {\n\tdone := make(chan int)\n\tgo zqgo%[1]d_%[2]d(k, done)\n\treturn <-done\n}\n\n", ci, i, names[i], next)
			}
			_ = typesDeclared
		}
		first := qual("main", pkgs[levels[0]], names[0])
		fmt.Fprintf(&mainSwitch, "\tcase \"%d\":\n\t\tfmt.Println(\"chain-result\", %s(len(os.Args)))\n", ci, first)
		cp.Chains = append(cp.Chains, info)
	}
	hdr := func(pkg string) string {
		imports := []string{"\"fmt\"", "\"os\"", "\"runtime\"", "\"runtime/debug\""}
		if pkg == "main" {
			imports = append(imports, "\""+mod+"/zqliba\"", "\""+mod+"/"+dirOf["zqlibb"]+"\"")
		} else if pkg == "zqliba" {
			imports = append(imports, "\""+mod+"/"+dirOf["zqlibb"]+"\"")
		}
		keep := "var (\n\t_ = fmt.Sprint\n\t_ = os.Args\n\t_ = runtime.NumCPU\n\t_ = debug.SetGCPercent\n"
		if pkg == "main" {
			keep += "\t_ = zqliba.ZqKeep\n\t_ = zqlibb.ZqKeep\n"
		} else if pkg == "zqliba" {
			keep += "\t_ = zqlibb.ZqKeep\n"
		}
		keep += ")\n\n"
		return "package " + pkg + "\n\nimport (\n\t" + strings.Join(imports, "\n\t") + "\n)\n\n" + keep
	}
	files := map[string]string{"go.mod": "module " + mod + "\n\ngo 1.26\n"}
	for _, p := range pkgs {
		dir := dirOf[p] + "/"
		if p == "main" {
			dir = ""
		}
		x := hdr(p) + bodies[p+"/x"].String()
		y := hdr(p) + bodies[p+"/y"].String()
		if p != "main" {
			x += "var ZqKeep = 1\n"
		} else {
			x += "func main() {\n\tsel := \"0\"\n\tif len(os.Args) > 1 {\n\t\tsel = os.Args[1]\n\t}\n\tswitch sel {\n" + mainSwitch.String() + "\t}\n}\n"
		}
		files[dir+"zqfilex.go"] = x
		files[dir+"zqfiley.go"] = y
	}
	cp.Prog = &Prog{Module: mod, Files: files}
	return cp
}
