package main

import (
	"bytes"
	"fmt"
	"math/rand"
	"path"
	"slices"
	"sort"
	"strings"
	"text/template"
)

// ---------------------------------------------------------------------------
// Program generator: composes feature modules into a multi-package module.
// Soundness rules (DESIGN.md 2.5): output never depends on identifier names,
// positions, build metadata, map order, scheduling, addresses or time.

type Marker struct {
	Name  string `json:"name"`
	Class string `json:"class"` // func type var const field umethod emethod pkgname importpath filename dirname module
	Pkg   string `json:"pkg"`
	Hide  bool   `json:"hide"` // must be absent from an obfuscated binary
}

type GFile struct {
	pkg     *GPkg
	name    string
	header  string            // e.g. build constraints
	imports map[string]string // import path -> alias ("", "name", ".", "_")
	body    strings.Builder
	raw     string // non-Go files (assembly)
}

type GPkg struct {
	Path, Name, Dir string
	IsMain          bool
	files           map[string]*GFile
	order           []string
	Idx             int
}

type Gen struct {
	R        *rand.Rand
	Mod      string
	Libs     []*GPkg
	Main     *GPkg
	Markers  []Marker
	Feats    []string
	calls    []string // statements in main()
	LdX      []string // -X settings: "importpath.name=value"
	HasTests bool
	HasAsm   bool
	seq      int
	Opt      GenOpts
	Planted  []Planted
}

type GenOpts struct {
	Features   []string // restrict to these features (nil = random subset)
	MinFeats   int
	MaxFeats   int
	NoAsm      bool
	NoLinkname bool
	NoTests    bool
	NLibs      int // 0 = random 2..4
	PlainNames bool
	Extra      []string // features added to the random selection (e.g. cgo, which is never picked at random)
}

// Prog is a generated module ready to be written to disk.
type Prog struct {
	Module   string
	Files    map[string]string
	Markers  []Marker
	Features []string
	LdX      []string
	HasTests bool
	HasAsm   bool
	MainPath string
	Pkgs     []string // import paths of all packages
	Planted  []Planted
}

const alnum = "abcdefghijklmnopqrstuvwxyzABCDEFGHIJKLMNOPQRSTUVWXYZ0123456789"

func randAlnum(r *rand.Rand, n int) string {
	b := make([]byte, n)
	for i := range b {
		b[i] = alnum[r.Intn(len(alnum))]
	}
	return string(b)
}

func randLower(r *rand.Rand, n int) string {
	b := make([]byte, n)
	for i := range b {
		b[i] = alnum[r.Intn(26)]
	}
	return string(b)
}

// mark creates a unique high-entropy identifier and registers it.
func (g *Gen) mark(role, class string, exported bool, pkg *GPkg, hide bool) string {
	g.seq++
	pre := "zq"
	if exported {
		pre = "Zq"
	}
	name := pre + randAlnum(g.R, 9) + role
	p := ""
	if pkg != nil {
		p = pkg.Path
	}
	g.Markers = append(g.Markers, Marker{Name: name, Class: class, Pkg: p, Hide: hide})
	return name
}

// names builds a name table from specs "Key=class,E" / "Key=class,u" (+",keep").
func (g *Gen) names(pkg *GPkg, specs ...string) map[string]string {
	m := map[string]string{}
	for _, s := range specs {
		key, rest, _ := strings.Cut(s, "=")
		parts := strings.Split(rest, ",")
		class := parts[0]
		exported := len(parts) > 1 && parts[1] == "E"
		hide := true
		if class == "emethod" || class == "local" {
			hide = false
		}
		for _, p := range parts[2:] {
			if p == "keep" {
				hide = false
			}
		}
		m[key] = g.mark(key, class, exported, pkg, hide)
	}
	return m
}

func (p *GPkg) file(name string) *GFile {
	if f, ok := p.files[name]; ok {
		return f
	}
	f := &GFile{pkg: p, name: name, imports: map[string]string{}}
	p.files[name] = f
	p.order = append(p.order, name)
	return f
}

// newFile creates a file with a marker name.
func (g *Gen) newFile(p *GPkg, role string) *GFile {
	g.seq++
	name := "zq" + randLower(g.R, 8) + role + ".go"
	g.Markers = append(g.Markers, Marker{Name: strings.TrimSuffix(name, ".go"), Class: "filename", Pkg: p.Path, Hide: true})
	return p.file(name)
}

func (f *GFile) std(paths ...string) {
	for _, p := range paths {
		if _, ok := f.imports[p]; !ok {
			f.imports[p] = ""
		}
	}
}

// use imports lib package q into file f and returns the qualifier prefix ("name.").
func (f *GFile) use(q *GPkg, r *rand.Rand) string {
	if a, ok := f.imports[q.Path]; ok {
		switch a {
		case "":
			return q.Name + "."
		case ".":
			return ""
		default:
			return a + "."
		}
	}
	alias := ""
	if r.Intn(4) == 0 {
		alias = "al" + randLower(r, 5)
	}
	f.imports[q.Path] = alias
	if alias == "" {
		return q.Name + "."
	}
	return alias + "."
}

func (f *GFile) add(tmpl string, data any) {
	t, err := template.New("x").Delims("«", "»").Parse(tmpl)
	if err != nil {
		panic(fmt.Sprintf("template: %v\n%s", err, tmpl))
	}
	var buf bytes.Buffer
	if err := t.Execute(&buf, data); err != nil {
		panic(err)
	}
	f.body.WriteString(buf.String())
	f.body.WriteString("\n")
}

func (f *GFile) render() string {
	if f.raw != "" {
		return f.raw
	}
	var b strings.Builder
	b.WriteString(f.header)
	fmt.Fprintf(&b, "package %s\n\n", f.pkg.Name)
	if len(f.imports) > 0 {
		b.WriteString("import (\n")
		for _, p := range sortedKeys(f.imports) {
			if a := f.imports[p]; a != "" {
				fmt.Fprintf(&b, "\t%s %q\n", a, p)
			} else {
				fmt.Fprintf(&b, "\t%q\n", p)
			}
		}
		b.WriteString(")\n\n")
	}
	b.WriteString(f.body.String())
	return b.String()
}

type featureFn func(g *Gen)

var featureTable = map[string]featureFn{}
var featureOrder []string

func feature(name string, fn featureFn) {
	featureTable[name] = fn
	featureOrder = append(featureOrder, name)
}

// lib picks a library package; user picks a package "above" it (a later lib or main).
func (g *Gen) lib() *GPkg { return g.Libs[g.R.Intn(len(g.Libs))] }

func (g *Gen) twoLibs() (lo, hi *GPkg) {
	i := g.R.Intn(len(g.Libs) - 1)
	j := i + 1 + g.R.Intn(len(g.Libs)-i-1)
	return g.Libs[i], g.Libs[j]
}

// mainFeat creates the main-side file and function of a feature and schedules its call.
func (g *Gen) mainFeat(role string) (*GFile, string) {
	f := g.newFile(g.Main, role)
	fn := g.mark(role, "func", false, g.Main, true)
	g.calls = append(g.calls, fn+"(args)")
	return f, fn
}

func generate(r *rand.Rand, opt GenOpts) *Prog {
	g := &Gen{R: r, Opt: opt}
	modHost := "zq" + randLower(r, 7) + ".example.com"
	modName := "m-" + randLower(r, 6)
	g.Mod = modHost + "/" + modName
	g.Markers = append(g.Markers,
		Marker{Name: modHost, Class: "module", Hide: true},
		Marker{Name: modName, Class: "module", Hide: true})
	nlibs := opt.NLibs
	if nlibs == 0 {
		nlibs = 2 + r.Intn(3)
	}
	g.Main = &GPkg{Path: g.Mod, Name: "main", Dir: "", IsMain: true, files: map[string]*GFile{}}
	for i := 0; i < nlibs; i++ {
		dirBase := "zq" + randLower(r, 7) + "dir"
		dir := dirBase
		switch r.Intn(4) {
		case 0:
			dir = "internal/" + dirBase
		case 1:
			dir = "zq" + randLower(r, 5) + ".v2/" + dirBase // dots in import paths
		case 2:
			dir = "sub-" + randLower(r, 4) + "/" + dirBase
		}
		name := path.Base(dir)
		if r.Intn(3) == 0 {
			name = "zq" + randLower(r, 7) + "pkg" // package name differs from the directory
		}
		p := &GPkg{Path: g.Mod + "/" + dir, Name: name, Dir: dir, files: map[string]*GFile{}, Idx: i}
		g.Libs = append(g.Libs, p)
		g.Markers = append(g.Markers, Marker{Name: name, Class: "pkgname", Pkg: p.Path, Hide: true})
		if name != dirBase {
			g.Markers = append(g.Markers, Marker{Name: dirBase, Class: "dirname", Pkg: p.Path, Hide: true})
		}
	}

	// Choose features.
	var chosen []string
	if opt.Features != nil {
		chosen = opt.Features
	} else {
		avail := append([]string{}, featureOrder...)
		r.Shuffle(len(avail), func(i, j int) { avail[i], avail[j] = avail[j], avail[i] })
		lo, hi := opt.MinFeats, opt.MaxFeats
		if lo == 0 {
			lo = 5
		}
		if hi < lo {
			hi = lo + 4
		}
		n := lo + r.Intn(hi-lo+1)
		for _, f := range avail {
			if len(chosen) >= n {
				break
			}
			if opt.NoAsm && f == "asm" || opt.NoLinkname && f == "linkname" || opt.NoTests && f == "tests" {
				continue
			}
			chosen = append(chosen, f)
		}
		for _, f := range opt.Extra {
			if !slices.Contains(chosen, f) {
				chosen = append(chosen, f)
			}
		}
		sort.Strings(chosen)
	}
	for _, f := range chosen {
		fn := featureTable[f]
		if fn == nil {
			panic("unknown feature " + f)
		}
		fn(g)
		g.Feats = append(g.Feats, f)
	}

	// main.go
	mf := g.Main.file("main.go")
	mf.std("os")
	var mb strings.Builder
	mb.WriteString("func main() {\n\targs := os.Args[1:]\n\t_ = args\n")
	for _, c := range g.calls {
		mb.WriteString("\t" + c + "\n")
	}
	mb.WriteString("}\n")
	mf.body.WriteString(mb.String())
	// Make sure every lib is linked into the program even if no feature used it.
	for _, p := range g.Libs {
		if len(p.files) == 0 {
			f := g.newFile(p, "empty")
			nm := g.names(p, "Noop=func,E")
			f.add("//go:noinline\nfunc «.Noop»() int { return 1 }", nm)
			mf.imports[p.Path] = "_"
		}
	}

	pr := &Prog{Module: g.Mod, Files: map[string]string{}, Markers: g.Markers, Features: g.Feats, LdX: g.LdX, HasTests: g.HasTests, HasAsm: g.HasAsm, MainPath: g.Mod, Planted: g.Planted}
	pr.Files["go.mod"] = "module " + g.Mod + "\n\ngo 1.26\n"
	for _, p := range append([]*GPkg{g.Main}, g.Libs...) {
		pr.Pkgs = append(pr.Pkgs, p.Path)
		for _, name := range p.order {
			pr.Files[path.Join(p.Dir, name)] = p.files[name].render()
		}
	}
	return pr
}

// ldflags returns the -ldflags argument for the program ("" when there is none).
func (p *Prog) ldflags() string {
	if len(p.LdX) == 0 {
		return ""
	}
	var parts []string
	for _, x := range p.LdX {
		parts = append(parts, "-X="+x)
	}
	return "-ldflags=" + strings.Join(parts, " ")
}
