package main

import (
	"fmt"
	"os"
	"path/filepath"
	"regexp"
	"strings"
	"sync"
	"time"
)

func init() { register("C11", "exploration", checkC11) }

var cfEnv = []string{"GARBLE_EXPERIMENTAL_CONTROLFLOW=1"}

// K8u: control flow obfuscation without -seed: the PRNG is seeded from the
// package's action ID, so every generated program gets its own PRNG stream.
var K8u = Config{Name: "K8u", Env: cfEnv}

// labelLines maps "label ..." lines of the program output by label ("fn#i" or "fn#i PANIC").
func labelLines(out []byte) map[string]string {
	m := map[string]string{}
	for _, l := range lines(out) {
		f := strings.Fields(l)
		if len(f) == 0 {
			continue
		}
		m[f[0]] += l + "\n"
	}
	return m
}

func checkC11(c *Ctx) {
	c.SetRule("programs of 8 functions marked //garble:controlflow, drawn from 37 body kinds (range over int and over iterator functions, slice append/copy/3-index/array conversions, eleven run-time panics, shifts/overflow/NaN/complex arithmetic, goto loops, method expressions, tuple assignment order, goroutines with WaitGroup/Mutex/channels, recursion through closures, string/rune conversions, defers in loops, select with default/nil/closed channels, pointer aliasing, embedded structs with promoted and shadowed members, loops/branches, switch+fallthrough+labels+goto, range over slice/array/int/string/map/channel, select, defer order and argument evaluation, recover with and without named results, panics of 5 kinds, " +
		"closures with captured variables, variadic/multiple results, value and pointer receivers, evaluation order, phi-heavy loops, integer/float arithmetic, type switches, struct/array/slice aliasing, generics, string/byte operations, map loops), each with its own random directive parameters " +
		"(block_splits {0,1,3,8,max} x junk_jumps {0,1,4,16,64} x flatten_passes {1,2,3} x flatten_hardening {none,xor,delegate_table,both} x trash_blocks {0,1,4,32}) and called on 2-6 argument vectors; every function logs its side effects in order. " +
		"Oracle: per call, the line (results | effect trace | panic value) equals the regular build's line. Build errors are allowed by the property and counted separately. The PRNG stream varies per program (action-ID seeded) and per -seed. " +
		"distinct_nontrivial = distinct (body kind, parameter row, config) functions for which the hook reports >=1 dispatcher (flattening actually applied).")
	c.Assume("a function garble rejects with a build error is not judged (allowed by the statement)", "junk/trash execution is observed as foreign output, a crash or a watchdog hang")
	g := buildGarble("", false)
	cfgs := []Config{K8u}
	nprog := 6
	if !c.Quick() {
		cfgs = []Config{K8u, K8, K9}
		nprog = 40
	}
	pool := warmPool(g, false, cfgs...)
	exclude := map[string]bool{}
	// Kinds that are listed known findings are kept out of the bulk programs (so that bulk
	// failures stay meaningful) and exercised in dedicated witness programs below.
	var witnessKinds []string
	for _, k := range append(cfKinds(), cfKinds2()...) {
		if c.HasFinding("cf/" + k.feature) {
			exclude[k.feature] = true
			witnessKinds = append(witnessKinds, k.name)
		}
	}
	var soloKinds []string
	for _, k := range cfKinds2() {
		if cfSoloKinds[k.name] && !exclude[k.feature] {
			exclude[k.feature] = true
			soloKinds = append(soloKinds, k.name)
		}
	}
	var mu sync.Mutex
	rejected := map[string]int{}
	rowsSeen := map[string]bool{}
	var runOneRef func(cp *CFProg, cfg Config, label string)
	runOne := func(cp *CFProg, cfg Config, label string) {
		w := materialize(cp.Prog, label)
		defer w.cleanup()
		pbin := filepath.Join(w.Root, "plain.bin")
		if !plainReference(c, w, pbin, false) {
			return
		}
		pr := runBin(pbin, nil, nil, time.Minute)
		if pr.TimedOut || pr.RC != 0 {
			c.Inconclusive("generator bug: control-flow program fails when built regularly:\n" + pr.String())
			return
		}
		want := labelLines(pr.Out)
		logDir := filepath.Join(w.Root, "log")
		must(os.MkdirAll(logDir, 0o755))
		gbin := filepath.Join(w.Root, "garbled.bin")
		gr := w.garbleBuild(g, pool.Box(filepath.Join(w.Root, "tmp")), cfg, gbin, []string{"GARBLE_VERIF_LOG=" + logDir})
		if gr.TimedOut {
			c.Inconclusive("garble build watchdog fired (features " + featuresOf(cp) + ")")
			return
		}
		files := func(extra map[string]string) map[string]string {
			m := w.replayFiles(map[string]string{"config.txt": cfg.Key(), "functions.json": jsonStr(cp.Funcs)})
			for k, v := range extra {
				m[k] = v
			}
			return m
		}
		if !gr.OK() {
			// "rejected with a build error rather than silently changed": allowed.
			if len(cp.Funcs) > 1 {
				// Find out which functions are rejected and still judge the others, one program each.
				c.Count("builds.rejected_multi", 1)
				for fi, f := range cp.Funcs {
					params := f.Params
					single := genCFProg(subRand(c.Seed, "c11single", label, fi), 1, nil, []string{f.Kind}, true, &params)
					runOneRef(single, cfg, fmt.Sprintf("%s-f%d", label, fi))
				}
				return
			}
			mu.Lock()
			msg := rxHexAddr.ReplaceAllString(firstErrLine(string(gr.Err)), "0x?")
			rejected[cp.Funcs[0].Kind+"/"+cp.Funcs[0].Params.key()+": "+msg]++
			mu.Unlock()
			c.Count("builds.rejected", 1)
			return
		}
		c.Count("builds.ok", 1)
		applied := map[string]bool{}
		for _, e := range readEvents(logDir) {
			if e.Kind == "cf.func" && e.Num("dispatchers") > 0 {
				applied[e.Str("name")] = true
			}
		}
		or := runBin(gbin, nil, nil, 2*time.Minute)
		got := labelLines(or.Out)
		if or.TimedOut {
			c.Eval("")
			c.Violate("cf/hang", fmt.Sprintf("%s: the obfuscated program does not terminate (features %s)", cfg.Name, featuresOf(cp)), files(nil))
			return
		}
		for _, f := range cp.Funcs {
			sig := ""
			if applied[f.Name] || applied[strings.TrimPrefix(f.Name, "")] {
				sig = fmt.Sprintf("%s|%s|%s", f.Kind, f.Params.key(), cfg.Name)
				mu.Lock()
				rowsSeen[f.Params.key()] = true
				mu.Unlock()
			}
			bad := ""
			n := 0
			for lbl, wl := range want {
				if !strings.HasPrefix(lbl, f.Name+"#") {
					continue
				}
				n++
				if got[lbl] != wl && bad == "" {
					bad = fmt.Sprintf("call %s: regular build prints %q, obfuscated prints %q", lbl, strings.TrimSpace(wl), strings.TrimSpace(got[lbl]))
				}
			}
			for i := 0; i < n; i++ {
				c.Eval(sig)
			}
			if bad != "" {
				c.Violate("cf/"+f.Feature, fmt.Sprintf("%s: function kind %s with %q behaves differently: %s", cfg.Name, f.Kind, f.Params.directive(), bad),
					files(map[string]string{"regular.txt": string(pr.Out), "garbled.txt": string(or.Out) + "\n--stderr--\n" + clip(or.Err, 3000)}))
			}
		}
		if or.RC != pr.RC {
			c.Violate("cf/exit-status", fmt.Sprintf("%s: obfuscated program exits %d, regular %d\n%s", cfg.Name, or.RC, pr.RC, clip(or.Err, 2000)), files(nil))
		}
	}
	runOneRef = runOne
	parallel(nprog*len(cfgs), 8, func(k int) {
		i, cfg := k/len(cfgs), cfgs[k%len(cfgs)]
		cp := genCFProg(subRand(c.Seed, "c11", c.Tier, i), 8, exclude, nil, true, nil)
		if k == 0 {
			c.Sample(map[string]any{"functions": cp.Funcs[:3], "config": cfg.Key()})
		}
		runOne(cp, cfg, fmt.Sprintf("c11p%d", k))
	})
	// Witnesses for listed findings: one single-kind program each, default parameters.
	for wi, kind := range witnessKinds {
		cp := genCFProg(subRand(c.Seed, "c11w", wi), 1, nil, []string{kind}, false, &cfParams{})
		runOne(cp, K8u, fmt.Sprintf("c11w%d", wi))
	}
	for si, kind := range soloKinds {
		cp := genCFProg(subRand(c.Seed, "c11solo", si), 1, nil, []string{kind}, false, &cfParams{})
		runOne(cp, K8u, fmt.Sprintf("c11s%d", si))
	}
	c.Extra("build_rejections_by_message", rejected)
	c.Extra("distinct_parameter_rows_applied", len(rowsSeen))
}

var rxHexAddr = regexp.MustCompile(`0x[0-9a-f]+`)

// firstErrLine returns the most telling line of a failed build's stderr.
func firstErrLine(s string) string {
	for _, l := range strings.Split(s, "\n") {
		t := strings.TrimSpace(l)
		if t == "" || strings.HasPrefix(t, "#") {
			continue
		}
		return clip([]byte(t), 200)
	}
	return ""
}

func featuresOf(cp *CFProg) string {
	var s []string
	for _, f := range cp.Funcs {
		s = append(s, f.Kind)
	}
	return strings.Join(s, ",")
}

func lastLines(s string, n int) string {
	ls := strings.Split(strings.TrimSpace(s), "\n")
	if len(ls) > n {
		ls = ls[len(ls)-n:]
	}
	return strings.Join(ls, " / ")
}
