package main

import (
	"encoding/json"
	"fmt"
	"os"
	"path/filepath"
	"strings"
	"time"
)

func init() { register("C13", "exploration", checkC13) }

type mapJSON map[string]struct {
	Path    string            `json:"path"`
	Objects map[string]string `json:"objects"`
}

// tracedBuild runs garble build keeping the garbled sources, and returns the name map.
func tracedBuild(c *Ctx, g *GarbleBin, pool *Pool, w *Work, cfg Config, label string) (*NameMap, Res, string) {
	kept := filepath.Join(w.Root, "kept-"+label)
	os.RemoveAll(kept)
	must(os.MkdirAll(kept, 0o755))
	bin := filepath.Join(w.Root, "g-"+label+".bin")
	// a private hard-link view of the pool: no user package is a cache hit from another build of the
	// run, so the kept sources (and with them the name map) are complete
	box := linkCloneBox(pool, "nmbox-"+label)
	defer chmodAndRemove(filepath.Dir(box.GoCache))
	r := w.garbleBuild(g, box, cfg, bin, []string{"GARBLE_VERIF_KEEPSRC=" + kept})
	if !r.OK() {
		return nil, r, bin
	}
	var tagFlags []string
	for _, f := range cfg.BFlags {
		if strings.HasPrefix(f, "-tags") {
			tagFlags = append(tagFlags, f)
		}
	}
	nm, err := buildNameMap(w.Dir, kept, tagFlags, plainEnv(cfgEnvNoGarble(cfg)...), "./...")
	if err != nil {
		c.Inconclusive("name-map oracle could not load the original packages: " + err.Error())
		return nil, r, bin
	}
	return nm, r, bin
}

// cfgEnvNoGarble passes GOOS/GOARCH-like settings of a config to the loader.
func cfgEnvNoGarble(cfg Config) []string {
	var out []string
	for _, e := range cfg.Env {
		if strings.HasPrefix(e, "GOOS=") || strings.HasPrefix(e, "GOARCH=") || strings.HasPrefix(e, "CGO_ENABLED=") {
			out = append(out, e)
		}
	}
	return out
}

func checkC13(c *Ctx) {
	c.SetRule("feature-composed multi-package programs are built with garble while a hook keeps the exact garbled sources handed to the compiler; a lock-step walk of original and garbled declaration skeletons gives the name every object has in the compiled program. " +
		"`garble map ./...` (same flags) is compared entry by entry (keyed by objectpath, resolved independently with x/tools on the original sources): listed name == built name, every obfuscated API-reachable object listed, import path/package name equal; " +
		"then every listed name is piped through `garble reverse` and must come back as its original. distinct_nontrivial = distinct (package, objectpath, config) objects that were obfuscated in the build.")
	c.Assume("objects without an objectpath (not API-reachable) are outside `garble map` by definition")
	g := buildGarble("", false)
	cfgs := []Config{K0, K3}
	nprog := 3
	if !c.Quick() {
		cfgs = []Config{K0, K1, K3, K0.with("K0tags", nil, nil, []string{"-tags=zqsometag"})}
		nprog = 24
	}
	pool := warmPool(g, false, cfgs...)
	byKind := map[string]int{}
	parallel(nprog*len(cfgs), 6, func(k int) {
		i, cfg := k/len(cfgs), cfgs[k%len(cfgs)]
		// Every program contains identifiers that collide within a package (same field name in two
		// structs, a function named like a field) next to a random selection of the other features.
		pr := subRand(c.Seed, "c13", c.Tier, i)
		var feats []string
		for _, f := range pickWith(pr, "samenames", 8) {
			if f != "tests" {
				feats = append(feats, f)
			}
		}
		p := generate(pr, GenOpts{Features: feats})
		w := materialize(p, fmt.Sprintf("c13p%d", k))
		defer w.cleanup()
		if !plainReference(c, w, filepath.Join(w.Root, "plain.bin"), false) {
			return
		}
		nm, r, _ := tracedBuild(c, g, pool, w, cfg, "b")
		if r.TimedOut {
			c.Inconclusive("garble build watchdog fired")
			return
		}
		if !r.OK() {
			c.Inconclusive("garble build failed (judged by C01): " + firstLine(string(r.Err)))
			return
		}
		if nm == nil {
			return
		}
		files := func(extra map[string]string) map[string]string {
			m := w.replayFiles(map[string]string{"config.txt": cfg.Key()})
			for k, v := range extra {
				m[k] = v
			}
			return m
		}
		for _, cf := range nm.Conflicts {
			c.Violate("build/inconsistent-name", cfg.Name+": "+cf, files(nil))
		}
		for _, b := range nm.BadIdents {
			c.Violate("build/bad-identifier", cfg.Name+": garbled source contains a malformed identifier: "+b, files(nil))
		}
		if len(nm.Unaligned) > 0 {
			c.Count("namemap.unaligned_places", len(nm.Unaligned))
		}
		// garble map
		box := pool.Box(filepath.Join(w.Root, "tmp-map"))
		mr := box.Garble(g, cfg, w.Dir, 10*time.Minute, nil, "map", "./...")
		if mr.TimedOut {
			c.Inconclusive("garble map watchdog fired")
			return
		}
		if !mr.OK() {
			c.Eval("")
			c.Violate("map/fails", fmt.Sprintf("garble %v map ./... fails\n%s", cfg.GFlags, mr), files(nil))
			return
		}
		var mj mapJSON
		if err := json.Unmarshal(mr.Out, &mj); err != nil {
			c.Violate("map/not-json", "garble map output is not JSON: "+err.Error(), files(map[string]string{"map.json": string(mr.Out)}))
			return
		}
		extra := map[string]string{"map.json": string(mr.Out)}
		var listed []string // obf names to reverse
		var origs []string
		kindOf := map[string]string{}
		for _, e := range nm.obfuscated() {
			if !e.Def || e.ObjPath == "" {
				continue
			}
			c.Eval(fmt.Sprintf("%s|%s|%s", e.Pkg, e.ObjPath, cfg.Name))
			c.mu.Lock()
			byKind[e.Kind]++
			c.mu.Unlock()
			mp, ok := mj[e.Pkg]
			if !ok {
				c.Violate("map/package-missing", fmt.Sprintf("%s: package %s is obfuscated in the build but absent from garble map", cfg.Name, e.Pkg), files(extra))
				continue
			}
			got, ok := mp.Objects[e.ObjPath]
			switch {
			case !ok:
				c.Violate("map/missing/"+e.Kind, fmt.Sprintf("%s: %s (%s, objectpath %q) is named %q in the build but not listed by garble map", cfg.Name, e.Key, e.Kind, e.ObjPath, e.Obf), files(extra))
			case got != e.Obf:
				c.Violate("map/differs/"+e.Kind, fmt.Sprintf("%s: %s (%s, objectpath %q) is named %q in the build but %q in garble map", cfg.Name, e.Key, e.Kind, e.ObjPath, e.Obf, got), files(extra))
			default:
				listed = append(listed, got)
				origs = append(origs, e.Orig)
				kindOf[got] = e.Kind
			}
		}
		// objects the map lists with a name although the build left them unobfuscated
		for _, e := range nm.Entries {
			if e.Def && e.ObjPath != "" && e.Obf == e.Orig {
				if mp, ok := mj[e.Pkg]; ok {
					if got, ok := mp.Objects[e.ObjPath]; ok && got != e.Orig {
						c.Eval("")
						c.Violate("map/extra/"+e.Kind, fmt.Sprintf("%s: garble map lists %s as %q but the build keeps its name", cfg.Name, e.Key, got), files(extra))
					}
				}
			}
		}
		// import paths and package names
		for pkg, mp := range mj {
			if built, ok := nm.ImportPath[pkg]; ok {
				c.Eval(fmt.Sprintf("%s|importpath|%s", pkg, cfg.Name))
				if built != mp.Path {
					c.Violate("map/importpath", fmt.Sprintf("%s: package %s is imported as %q in the build but garble map says %q", cfg.Name, pkg, built, mp.Path), files(extra))
				}
			}
		}
		// garble reverse on the listed names
		if len(listed) > 0 {
			in := strings.Join(listed, "\n") + "\n"
			rr := Run(Cmd{Dir: w.Dir, Env: pool.Box(filepath.Join(w.Root, "tmp-rev")).Env(cfg.Env...), Argv: garbleArgv(g, cfg, "reverse", "."), Stdin: []byte(in), Timeout: 10 * time.Minute})
			if rr.TimedOut {
				c.Inconclusive("garble reverse watchdog fired")
				return
			}
			out := lines(rr.Out)
			if rr.RC != 0 || len(out) != len(listed) {
				c.Violate("reverse/fails", fmt.Sprintf("%s: garble reverse of %d listed names exits %d with %d lines\n%s", cfg.Name, len(listed), rr.RC, len(out), clip(rr.Err, 1500)), files(extra))
				return
			}
			for j := range listed {
				c.Eval("")
				if out[j] != origs[j] {
					c.Violate("reverse/"+kindOf[listed[j]], fmt.Sprintf("%s: garble reverse maps the listed %s name %q to %q, want %q", cfg.Name, kindOf[listed[j]], listed[j], out[j], origs[j]), files(extra))
				}
			}
		}
		if k == 0 {
			c.Sample(map[string]any{"config": cfg.Key(), "features": p.Features, "obfuscated_objects": nm.summary(), "unaligned": len(nm.Unaligned), "example": func() any {
				for _, e := range nm.obfuscated() {
					if e.ObjPath != "" {
						return e
					}
				}
				return nil
			}()})
		}
	})
	c.Extra("objects_by_kind", byKind)
}
