package main

import (
	"bytes"
	"fmt"
	"math/rand"
	"os"
	"path/filepath"
	"strings"
	"time"
)

func init() { register("C14", "exploration", checkC14) }

const ggMod = "zqgg.example.com/m"

// zqpkgax: its path has zqpkga's path as a *string* prefix without being below it.
var ggPkgs = []string{"zqpkga", "zqpkgb", "zqpkgc", "zqpkgd", "zqpkgax"} // + cmd/zqapp (main)

type ggMarker struct {
	Name, Class, Pkg string // Pkg = short name (zqpkga.. / main)
}

// genGGProg: a fixed import graph (main -> a,b,c,d; b -> a; c -> b; d -> a) with random
// marker identifiers, file names and planted literals in every package.
func genGGProg(r *rand.Rand) (*Prog, []ggMarker) {
	var ms []ggMarker
	files := map[string]string{"go.mod": "module " + ggMod + "\n\ngo 1.26\n"}
	type pk struct{ T, Fa, Fb, Fn, Lit, LitVal, File, Sink, um, R, Ra, Rb, Ref string }
	pks := map[string]pk{}
	mk := func(short string) pk {
		s := randAlnum(r, 7)
		p := pk{T: "ZqT" + s, Fa: "ZqFa" + s, Fb: "ZqFb" + s, Fn: "ZqFn" + s, Lit: "ZqLit" + s, LitVal: "planted literal of " + short + " " + randAlnum(r, 16),
			File: "zq" + randLower(r, 8) + "file", Sink: "ZqSink" + s, um: "zqum" + s,
			R: "ZqR" + s, Ra: "ZqRa" + s, Rb: "ZqRb" + s, Ref: "ZqRef" + s}
		for _, m := range [][2]string{{p.T, "type"}, {p.Fa, "field"}, {p.Fb, "field"}, {p.Fn, "func"}, {p.Lit, "func"}, {p.LitVal, "literal"}, {p.File, "filename"}, {p.um, "umethod"}} {
			ms = append(ms, ggMarker{m[0], m[1], short})
		}
		if short != "cmd/zqapp" { // a main package is always linked as "main"
			ms = append(ms, ggMarker{ggMod + "/" + short, "importpath", short})
		}
		pks[short] = p
		return p
	}
	deps := map[string][]string{"zqpkga": nil, "zqpkgb": {"zqpkga"}, "zqpkgc": {"zqpkgb"}, "zqpkgd": {"zqpkga"}, "zqpkgax": nil}
	for _, short := range ggPkgs {
		p := mk(short)
		var imp, use strings.Builder
		for _, d := range deps[short] {
			dp := pks[d]
			fmt.Fprintf(&imp, "import %q\n", ggMod+"/"+d)
			// call a function, build a struct and select its fields across the package boundary
			fmt.Fprintf(&use, "\tx := %s.%s{%s: n, %s: \"q\"}\n\tn += %s.%s(n) + x.%s + len(x.%s)\n", d, dp.T, dp.Fa, dp.Fb, d, dp.Fn, dp.Fa, dp.Fb)
		}
		files[short+"/"+p.File+".go"] = fmt.Sprintf(`package %[1]s

%[2]s
type %[3]s struct {
	%[4]s int
	%[5]s string
}

var %[9]s any = %[3]s{}

//go:noinline
func (t %[3]s) %[10]s() int { return t.%[4]s * 2 }

//go:noinline
func %[6]s(n int) int {
%[11]s	t := %[3]s{%[4]s: n, %[5]s: %[7]s()}
	return t.%[10]s() + len(t.%[5]s)
}

//go:noinline
func %[7]s() string { return %[8]q }
`, short, "import \"encoding/json\"\nimport \"reflect\"\n"+imp.String(), p.T, p.Fa, p.Fb, p.Fn, p.Lit, p.LitVal, p.Sink, p.um, use.String()) + fmt.Sprintf(ggReflTmpl, p.R, p.Ra, p.Rb, p.Ref)
	}
	mp := mk("cmd/zqapp")
	var imp, use strings.Builder
	for _, d := range ggPkgs {
		dp := pks[d]
		fmt.Fprintf(&imp, "\t%q\n", ggMod+"/"+d)
		fmt.Fprintf(&use, "\t{\n\t\tx := %s.%s{%s: n}\n\t\tfmt.Println(%q, %s.%s(n), x.%s, %s.%s(), %s.%s != nil, %s.%s(n))\n\t}\n", d, dp.T, dp.Fa, d, d, dp.Fn, dp.Fa, d, dp.Lit, d, dp.Sink, d, dp.Ref)
	}
	files["cmd/zqapp/"+mp.File+".go"] = fmt.Sprintf(`package main

import (
	"fmt"
	"os"

%[1]s)

type %[2]s struct {
	%[3]s int
	%[4]s string
}

var %[8]s any = %[2]s{}

//go:noinline
func (t %[2]s) %[9]s() int { return t.%[3]s * 2 }

//go:noinline
func %[5]s(n int) int {
	t := %[2]s{%[3]s: n, %[4]s: %[6]s()}
	return t.%[9]s() + len(t.%[4]s)
}

//go:noinline
func %[6]s() string { return %[7]q }

func main() {
	n := len(os.Args)
%[10]s	fmt.Println("main", %[5]s(n), %[6]s(), %[11]s(n))
}
`, "\t\"encoding/json\"\n\t\"reflect\"\n"+imp.String(), mp.T, mp.Fa, mp.Fb, mp.Fn, mp.Lit, mp.LitVal, mp.Sink, mp.um, use.String(), mp.Ref) + fmt.Sprintf(ggReflTmpl, mp.R, mp.Ra, mp.Rb, mp.Ref)
	return &Prog{Module: ggMod, Files: files}, ms
}

const ggReflTmpl = `
// Reflected type: its names legitimately stay recoverable, so they are not byte-scan markers.
type %[1]s struct {
	%[2]s int
	%[3]s string
}

//go:noinline
func %[4]s(n int) string {
	v := %[1]s{%[2]s: n, %[3]s: "r"}
	b, _ := json.Marshal(&v)
	t := reflect.TypeOf(v)
	return string(b) + " " + t.Name() + " " + t.Field(0).Name + " " + t.Field(1).Name
}
`

// containsMarker reports whether name occurs in data other than as the beginning of a longer
// marker of the list: the import path .../zqpkga must not be "found" inside .../zqpkgax.
func containsMarker(data []byte, name string, longer []string) bool {
	nb := []byte(name)
	for off := 0; ; {
		i := bytes.Index(data[off:], nb)
		if i < 0 {
			return false
		}
		at := off + i
		partOfLonger := false
		for _, l := range longer {
			if bytes.HasPrefix(data[at:], []byte(l)) {
				partOfLonger = true
			}
		}
		if !partOfLonger {
			return true
		}
		off = at + 1
	}
}

type ggCase struct {
	Name     string
	Pattern  string   // GOGARBLE value
	Matched  []string // short names of matched user packages
	Literals bool
	Nothing  bool
}

func ggCases(quick bool) []ggCase {
	all := append(append([]string{}, ggPkgs...), "cmd/zqapp")
	exact := func(ss ...string) string {
		var parts []string
		for _, s := range ss {
			parts = append(parts, ggMod+"/"+s)
		}
		return strings.Join(parts, ",")
	}
	cs := []ggCase{
		{Name: "only-a", Pattern: exact("zqpkga"), Matched: []string{"zqpkga"}},
		{Name: "b+c", Pattern: exact("zqpkgb", "zqpkgc"), Matched: []string{"zqpkgb", "zqpkgc"}, Literals: true},
		{Name: "only-main", Pattern: exact("cmd/zqapp"), Matched: []string{"cmd/zqapp"}},
		{Name: "a+d+main", Pattern: exact("zqpkga", "zqpkgd", "cmd/zqapp"), Matched: []string{"zqpkga", "zqpkgd", "cmd/zqapp"}},
		{Name: "glob-ab", Pattern: ggMod + "/zqpkg[ab]", Matched: []string{"zqpkga", "zqpkgb"}},
		{Name: "siblings-ax+a", Pattern: exact("zqpkgax", "zqpkga"), Matched: []string{"zqpkga", "zqpkgax"}},
		{Name: "siblings-a+ax+b", Pattern: exact("zqpkga", "zqpkgax", "zqpkgb"), Matched: []string{"zqpkga", "zqpkgax", "zqpkgb"}, Literals: true},
		{Name: "only-ax", Pattern: exact("zqpkgax"), Matched: []string{"zqpkgax"}},
		{Name: "std+c", Pattern: "strings," + exact("zqpkgc"), Matched: []string{"zqpkgc"}, Literals: true},
		{Name: "module-prefix", Pattern: ggMod, Matched: all},
		{Name: "star", Pattern: "*", Matched: all},
		{Name: "nothing", Pattern: "zqnomatch.example.com/none", Nothing: true},
		{Name: "nothing-sibling", Pattern: ggMod + "/zqpkg", Nothing: true}, // a sibling *prefix of a name* is not a path prefix
	}
	if quick {
		return cs
	}
	// thorough: every subset of the four libraries, with and without main.
	for mask := 0; mask < 1<<len(ggPkgs); mask++ {
		for _, withMain := range []bool{false, true} {
			var m []string
			for i, p := range ggPkgs {
				if mask&(1<<i) != 0 {
					m = append(m, p)
				}
			}
			if withMain {
				m = append(m, "cmd/zqapp")
			}
			if len(m) == 0 {
				continue
			}
			cs = append(cs, ggCase{Name: fmt.Sprintf("subset-%02d-main=%v", mask, withMain), Pattern: exact(m...), Matched: m, Literals: mask%3 == 0})
		}
	}
	cs = append(cs, ggCase{Name: "glob-star-elem", Pattern: "zqgg.example.com/*/zqpkgd", Matched: []string{"zqpkgd"}},
		ggCase{Name: "nothing-empty-elems", Pattern: ",,zqnomatch", Nothing: true})
	return cs
}

func checkC14(c *Ctx) {
	c.SetRule("a 5-package module (main -> a,b,c,d; b -> a; c -> b; d -> a; every package constructs structs of and selects fields from its dependencies, so obfuscated and plain packages use each other in both directions) with random marker names, file names and planted literals; " +
		"per GOGARBLE pattern list (exact comma lists, glob, module prefix, *, std+user, nothing-matches, name-prefix sibling): (a) stdout/exit status equal the regular build; (b) markers (types, fields, funcs, unexported methods, file names, import paths, and with -literals planted literals) of matched packages are absent from the binary, " +
		"those of unmatched packages that the regular stripped binary contains are still present; (d) runtime function names still present; (e) a list matching nothing is rejected with an error and no output. " +
		"distinct_nontrivial = distinct (pattern list, package, marker class) checks on markers observable in the regular stripped binary.")
	c.Assume("struct conversions between identical struct types across the obfuscated/plain boundary are a separate witness case (known finding), not part of the bulk programs")
	g := buildGarble("", false)
	cases := ggCases(c.Quick())
	pool := warmPool(g, false) // per-pattern std closures accumulate in the pool across runs
	p, markers := genGGProg(subRand(c.Seed, "c14"))
	w := materialize(p, "c14")
	defer w.cleanup()
	mainDir := filepath.Join(w.Dir, "cmd", "zqapp")
	pbin := filepath.Join(w.Root, "plain.bin")
	pr0 := Run(Cmd{Dir: mainDir, Env: plainEnv(), Argv: []string{"go", "build", "-trimpath", "-ldflags=-s -w", "-o", pbin, "."}, Timeout: 10 * time.Minute})
	if !pr0.OK() {
		c.Inconclusive("generator bug: GOGARBLE program rejected by the regular toolchain:\n" + pr0.String())
		return
	}
	plainData, _ := os.ReadFile(pbin)
	pr := runBin(pbin, []string{"x"}, nil, time.Minute)
	c.Sample(map[string]any{"files": sortedKeys(p.Files), "regular_output": clip(pr.Out, 800)})
	parallel(len(cases), 4, func(i int) {
		gc := cases[i]
		cfg := Config{Name: "GG-" + gc.Name, Env: []string{"GOGARBLE=" + gc.Pattern}}
		if gc.Literals {
			cfg.GFlags = []string{"-literals"}
		}
		gbin := filepath.Join(w.Root, "g-"+gc.Name+".bin")
		box := pool.Box(filepath.Join(w.Root, "tmp-"+gc.Name))
		gr := box.Garble(g, cfg, mainDir, 30*time.Minute, nil, "build", "-o", gbin, ".")
		files := func() map[string]string {
			return w.replayFiles(map[string]string{"case.txt": fmt.Sprintf("GOGARBLE=%s flags=%v matched=%v\n", gc.Pattern, cfg.GFlags, gc.Matched), "garble-output.txt": gr.String()})
		}
		if gr.TimedOut {
			c.Inconclusive("garble build watchdog fired for " + gc.Name)
			return
		}
		if gc.Nothing {
			c.Eval("nothing|" + gc.Name)
			if gr.RC == 0 || len(bytes.TrimSpace(gr.Err)) == 0 || exists(gbin) {
				c.Violate("nothing-matches-accepted/"+gc.Name, fmt.Sprintf("GOGARBLE=%q matches no package being built but garble build exits %d (output file exists: %v)", gc.Pattern, gr.RC, exists(gbin)), files())
			}
			return
		}
		if !gr.OK() {
			c.Eval("")
			c.Violate("build-fails/"+gc.Name, fmt.Sprintf("GOGARBLE=%q: garble build fails on a program the regular toolchain builds\n%s", gc.Pattern, gr), files())
			return
		}
		or := runBin(gbin, []string{"x"}, nil, time.Minute)
		c.Eval("run|" + gc.Name)
		if !bytes.Equal(or.Out, pr.Out) || or.RC != pr.RC {
			c.Violate("behaviour/"+gc.Name, fmt.Sprintf("GOGARBLE=%q: program output differs from the regular build", gc.Pattern), files())
		}
		data, _ := os.ReadFile(gbin)
		matched := map[string]bool{}
		for _, m := range gc.Matched {
			matched[m] = true
		}
		for _, m := range markers {
			var longer []string
			for _, o := range markers {
				if len(o.Name) > len(m.Name) && strings.HasPrefix(o.Name, m.Name) {
					longer = append(longer, o.Name)
				}
			}
			inPlain := containsMarker(plainData, m.Name, longer)
			inG := containsMarker(data, m.Name, longer)
			if m.Class == "literal" && matched[m.Pkg] && !gc.Literals {
				continue // literals of obfuscated packages only vanish with -literals
			}
			sig := ""
			if inPlain {
				sig = fmt.Sprintf("%s|%s|%s", gc.Name, m.Pkg, m.Class)
			}
			c.Eval(sig)
			if matched[m.Pkg] {
				if inG {
					c.Violate("matched-keeps/"+m.Class, fmt.Sprintf("GOGARBLE=%q: the %s %q of matched package %s is still in the binary", gc.Pattern, m.Class, m.Name, m.Pkg), files())
				}
			} else if inPlain && !inG {
				c.Violate("unmatched-loses/"+m.Class, fmt.Sprintf("GOGARBLE=%q: the %s %q of unmatched package %s is gone from the binary (the regular stripped binary has it)", gc.Pattern, m.Class, m.Name, m.Pkg), files())
			}
		}
		for _, rt := range []string{"runtime.main", "runtime.gopanic", "runtime.mallocgc"} {
			c.Eval("")
			if bytes.Contains(plainData, []byte(rt)) && !bytes.Contains(data, []byte(rt)) {
				c.Violate("runtime-obfuscated", fmt.Sprintf("GOGARBLE=%q: runtime function name %q is gone from the binary", gc.Pattern, rt), files())
			}
		}
	})
	c.Count("pattern_lists", len(cases))

	// Dedicated witness for the known cross-partition struct-identity finding.
	wprog := &Prog{Module: ggMod, Files: map[string]string{
		"go.mod":        "module " + ggMod + "\n\ngo 1.26\n",
		"zqpkga/a.go":   "package zqpkga\n\ntype ZqS struct {\n\tZqX int\n\tZqY string\n}\n\nfunc ZqMk() ZqS { return ZqS{ZqX: 1, ZqY: \"y\"} }\n",
		"zqpkgb/b.go":   "package zqpkgb\n\ntype ZqS2 struct {\n\tZqX int\n\tZqY string\n}\n",
		"cmd/zqapp/m.go": "package main\n\nimport (\n\t\"fmt\"\n\n\t\"" + ggMod + "/zqpkga\"\n\t\"" + ggMod + "/zqpkgb\"\n)\n\nfunc main() {\n\tb := zqpkgb.ZqS2(zqpkga.ZqMk())\n\tfmt.Println(b.ZqX, b.ZqY)\n}\n",
	}}
	ww := materialize(wprog, "c14w")
	defer ww.cleanup()
	wdir := filepath.Join(ww.Dir, "cmd", "zqapp")
	if r := Run(Cmd{Dir: wdir, Env: plainEnv(), Argv: []string{"go", "build", "-o", filepath.Join(ww.Root, "p.bin"), "."}, Timeout: 5 * time.Minute}); r.OK() {
		cfg := Config{Name: "GG-witness", Env: []string{"GOGARBLE=" + ggMod + "/zqpkga"}}
		gr := pool.Box(filepath.Join(ww.Root, "tmp")).Garble(g, cfg, wdir, 30*time.Minute, nil, "build", "-o", filepath.Join(ww.Root, "g.bin"), ".")
		c.Eval("witness|struct-identity-across-partition")
		if !gr.OK() && !gr.TimedOut {
			c.Violate("struct-identity-across-partition", "GOGARBLE="+ggMod+"/zqpkga: converting between identical struct types of an obfuscated and a plain package no longer compiles\n"+clip(gr.Err, 1500), ww.replayFiles(nil))
		}
	}
}
