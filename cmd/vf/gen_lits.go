package main

import (
	"encoding/hex"
	"fmt"
	"math/rand"
	"strconv"
	"strings"
)

// ---------------------------------------------------------------------------
// Literal program generator (C05, C09). The generated package main has no
// imports, so it can be type-checked in-process without an importer; it prints
// "<index> <hex>" per literal via println (stderr).

type LitCase struct {
	Idx     int
	Data    []byte
	Form    string // string typed concat constref bytes array ptrbytes ptrarray
	Pos     string // varinit local arg return composite field mapkey mapval closure generic init methodarg deferarg switchtag const arraylen caselabel nosplit
	Allowed string // non-empty: may legitimately stay verbatim in a -literals binary
}

type LitProg struct {
	Src   string
	Cases []LitCase
}

var litLengths = []int{0, 1, 7, 8, 9, 15, 16, 17, 31, 64, 255, 256, 257, 1000, 2047, 2048, 2049}

func litBytes(r *rand.Rand, n int, class int) []byte {
	b := make([]byte, n)
	switch class % 5 {
	case 0: // printable ASCII
		for i := range b {
			b[i] = byte(32 + r.Intn(95))
		}
	case 1: // all byte values
		for i := range b {
			b[i] = byte(r.Intn(256))
		}
	case 2: // valid UTF-8 text
		runes := []rune("aé世界Ж😀z0 \t")
		var sb strings.Builder
		for sb.Len() < n {
			sb.WriteRune(runes[r.Intn(len(runes))])
		}
		copy(b, sb.String()[:n]) // may cut a rune: still fine as bytes
	case 3: // NUL-heavy
		for i := range b {
			if r.Intn(3) == 0 {
				b[i] = byte(r.Intn(256))
			}
		}
	case 4: // ascending pattern starting anywhere (every byte value for n>=256)
		s := r.Intn(256)
		for i := range b {
			b[i] = byte(s + i)
		}
	}
	return b
}

// marker makes data recognisable and unique: a random alnum tag at a random position.
func litUnique(r *rand.Rand, b []byte) {
	if len(b) >= 8 {
		tag := "Zq" + randAlnum(r, 6)
		copy(b[r.Intn(len(b)-7):], tag)
	}
}

func goStringLit(b []byte) string { return strconv.Quote(string(b)) }

func goByteElems(b []byte, r *rand.Rand) string {
	var sb strings.Builder
	for i, v := range b {
		if i > 0 {
			sb.WriteString(", ")
		}
		// every spelling of an integer constant the language has
		switch r.Intn(12) {
		case 0:
			fmt.Fprintf(&sb, "0x%02x", v)
		case 1:
			if v >= 32 && v < 127 && v != '\'' && v != '\\' {
				fmt.Fprintf(&sb, "'%c'", v)
			} else {
				fmt.Fprintf(&sb, "%d", v)
			}
		case 2:
			fmt.Fprintf(&sb, "0%o", v) // legacy octal: 033
		case 3:
			fmt.Fprintf(&sb, "0o%o", v)
		case 4:
			fmt.Fprintf(&sb, "0b%b", v)
		case 5:
			fmt.Fprintf(&sb, "0X%X", v)
		case 6:
			if v >= 100 {
				fmt.Fprintf(&sb, "%d_%02d", v/100, v%100) // digit separator: 2_55
			} else {
				fmt.Fprintf(&sb, "0x0_%x", v)
			}
		case 7:
			fmt.Fprintf(&sb, "'\\x%02x'", v) // rune literal with an escape
		case 8:
			fmt.Fprintf(&sb, "%d + 0", v) // a constant expression
		default:
			fmt.Fprintf(&sb, "%d", v)
		}
	}
	return sb.String()
}

const litPrelude = `package main

func hexs(b []byte) string {
	const digits = "0123456789abcdef"
	out := make([]byte, 0, len(b)*2)
	for _, c := range b {
		out = append(out, digits[c>>4], digits[c&15])
	}
	return string(out)
}

func emit(i int, b []byte) { println(i, hexs(b)) }

type myStr string

type holder struct {
	S string
	B []byte
}

type recv struct{ n int }

func (r recv) take(i int, s string) { emit(i, []byte(s)) }

func ident[T any](v T) T { return v }

func gstr[T ~string](i int, v T) { emit(i, []byte(string(v))) }
`

// genLitProg builds a program with n literal cases. sizeCap bounds lengths (0 = all).
func genLitProg(r *rand.Rand, n int) *LitProg {
	lp := &LitProg{}
	var decls, mainBody, initBody strings.Builder
	forms := []string{"string", "string", "string", "typed", "concat", "constref", "conv", "bytes", "array", "ptrbytes", "ptrarray"}
	strPos := []string{"varinit", "local", "arg", "return", "composite", "field", "mapkey", "mapval", "closure", "generic", "init", "methodarg", "deferarg", "switchtag", "nosplit", "gostmt"}
	for i := 0; i < n; i++ {
		ln := litLengths[r.Intn(len(litLengths))]
		if r.Intn(4) == 0 {
			ln = r.Intn(300)
		}
		form := forms[r.Intn(len(forms))]
		// Keep very large byte-slice literals rare (they bloat the source).
		if ln > 300 && form != "string" && r.Intn(3) != 0 {
			ln = 8 + r.Intn(40)
		}
		data := litBytes(r, ln, r.Intn(5))
		litUnique(r, data)
		lc := LitCase{Idx: i, Data: data, Form: form}
		inWindow := ln >= 8 && ln <= 2048
		if !inWindow {
			lc.Allowed = "out-of-window"
		}
		q := goStringLit(data)
		id := fmt.Sprintf("v%d", i)
		switch form {
		case "string":
			lc.Pos = strPos[r.Intn(len(strPos))]
			switch lc.Pos {
			case "varinit":
				fmt.Fprintf(&decls, "var %s = %s\n", id, q)
				fmt.Fprintf(&mainBody, "\temit(%d, []byte(%s))\n", i, id)
			case "local":
				fmt.Fprintf(&mainBody, "\t{\n\t\t%s := %s\n\t\temit(%d, []byte(%s))\n\t}\n", id, q, i, id)
			case "arg":
				fmt.Fprintf(&mainBody, "\temit(%d, []byte(%s))\n", i, q)
			case "return":
				fmt.Fprintf(&decls, "func f%d() string { return %s }\n", i, q)
				fmt.Fprintf(&mainBody, "\temit(%d, []byte(f%d()))\n", i, i)
			case "composite":
				fmt.Fprintf(&mainBody, "\temit(%d, []byte([]string{\"a\", %s}[1]))\n", i, q)
			case "field":
				fmt.Fprintf(&mainBody, "\temit(%d, []byte(holder{S: %s}.S))\n", i, q)
			case "mapkey":
				fmt.Fprintf(&mainBody, "\tfor k := range map[string]int{%s: 1} {\n\t\temit(%d, []byte(k))\n\t}\n", q, i)
			case "mapval":
				fmt.Fprintf(&mainBody, "\temit(%d, []byte(map[int]string{1: %s}[1]))\n", i, q)
			case "closure":
				fmt.Fprintf(&mainBody, "\tfunc() { emit(%d, []byte(%s)) }()\n", i, q)
			case "generic":
				fmt.Fprintf(&mainBody, "\temit(%d, []byte(ident(%s)))\n", i, q)
			case "init":
				fmt.Fprintf(&decls, "var %s string\n", id)
				fmt.Fprintf(&initBody, "\t%s = %s\n", id, q)
				fmt.Fprintf(&mainBody, "\temit(%d, []byte(%s))\n", i, id)
			case "methodarg":
				fmt.Fprintf(&mainBody, "\t{\n\t\tm := recv{}.take\n\t\tm(%d, %s)\n\t}\n", i, q)
			case "deferarg":
				fmt.Fprintf(&mainBody, "\tfunc() { defer emit(%d, []byte(%s)) }()\n", i, q)
			case "gostmt":
				fmt.Fprintf(&mainBody, "\t{\n\t\tdone := make(chan bool)\n\t\tgo func(s string) { emit(%d, []byte(s)); close(done) }(%s)\n\t\t<-done\n\t}\n", i, q)
			case "switchtag":
				fmt.Fprintf(&mainBody, "\tswitch s := %s; {\n\tcase len(s) >= 0:\n\t\temit(%d, []byte(s))\n\t}\n", q, i)
			case "nosplit":
				fmt.Fprintf(&decls, "//go:nosplit\nfunc f%d() string { return %s }\n", i, q)
				fmt.Fprintf(&mainBody, "\temit(%d, []byte(f%d()))\n", i, i)
				if lc.Allowed == "" {
					lc.Allowed = "nosplit"
				}
			}
		case "typed":
			lc.Pos = "varinit"
			fmt.Fprintf(&decls, "var %s myStr = %s\n", id, q)
			fmt.Fprintf(&mainBody, "\tgstr(%d, %s)\n", i, id)
			if lc.Allowed == "" {
				lc.Allowed = "named-constant-type"
			}
		case "concat":
			// constant-folded concatenation of three parts
			lc.Pos = "arg"
			a, b := 0, 0
			if ln > 0 {
				a = r.Intn(ln + 1)
				b = a + r.Intn(ln-a+1)
			}
			fmt.Fprintf(&mainBody, "\temit(%d, []byte(%s + %s + %s))\n", i, goStringLit(data[:a]), goStringLit(data[a:b]), goStringLit(data[b:]))
		case "conv":
			// constant conversions: expressions of type string with a constant value that are neither
			// literals nor names (the "enum of strings" idiom, string(typedConst))
			lc.Pos = []string{"typedconst", "untypedconst", "paren", "nested", "folded"}[r.Intn(5)]
			switch lc.Pos {
			case "typedconst":
				fmt.Fprintf(&decls, "const %s myStr = %s\n", id, q)
				fmt.Fprintf(&mainBody, "\temit(%d, []byte(string(%s)))\n", i, id)
			case "untypedconst":
				fmt.Fprintf(&decls, "const %s = %s\n", id, q)
				fmt.Fprintf(&mainBody, "\temit(%d, []byte((string(%s))))\n", i, id)
			case "paren":
				fmt.Fprintf(&mainBody, "\temit(%d, []byte((string)((%s))))\n", i, q)
			case "nested":
				fmt.Fprintf(&mainBody, "\temit(%d, []byte(string(myStr(%s))))\n", i, q)
			case "folded":
				a := 0
				if ln > 0 {
					a = r.Intn(ln + 1)
				}
				fmt.Fprintf(&mainBody, "\temit(%d, []byte(%s + string(myStr(%s))))\n", i, goStringLit(data[:a]), goStringLit(data[a:]))
			}
		case "constref":
			// declared as a constant; also used where a compile-time constant is required
			lc.Pos = "const"
			fmt.Fprintf(&decls, "const %s = %s\n", id, q)
			fmt.Fprintf(&decls, "var arr%d [len(%s) + 1]int\n", i, id)
			fmt.Fprintf(&mainBody, "\tswitch x := ident(%s); x {\n\tcase %s:\n\t\temit(%d, []byte(x))\n\tdefault:\n\t\temit(%d, []byte(\"case label mismatch\"))\n\t}\n", id, id, i, i)
			fmt.Fprintf(&mainBody, "\tif len(arr%d) != %d {\n\t\tprintln(\"arraylen\", %d, len(arr%d))\n\t}\n", i, ln+1, i, i)
		case "bytes":
			lc.Pos = []string{"varinit", "arg", "field"}[r.Intn(3)]
			el := goByteElems(data, r)
			switch lc.Pos {
			case "varinit":
				fmt.Fprintf(&decls, "var %s = []byte{%s}\n", id, el)
				fmt.Fprintf(&mainBody, "\temit(%d, %s)\n", i, id)
			case "arg":
				fmt.Fprintf(&mainBody, "\temit(%d, []byte{%s})\n", i, el)
			case "field":
				fmt.Fprintf(&mainBody, "\temit(%d, holder{B: []byte{%s}}.B)\n", i, el)
			}
		case "array":
			lc.Pos = "local"
			// array longer than the number of elements: the tail must stay zero
			extra := r.Intn(3)
			full := append(append([]byte{}, data...), make([]byte, extra)...)
			lc.Data = full
			fmt.Fprintf(&mainBody, "\t{\n\t\ta := [%d]byte{%s}\n\t\temit(%d, a[:])\n\t}\n", ln+extra, goByteElems(data, r), i)
		case "ptrbytes":
			lc.Pos = "arg"
			fmt.Fprintf(&mainBody, "\temit(%d, *(&[]byte{%s}))\n", i, goByteElems(data, r))
		case "ptrarray":
			lc.Pos = "arg"
			// sometimes the array is longer than its element list: the tail must stay zero
			extra := 0
			if r.Intn(2) == 0 {
				extra = 1 + r.Intn(4)
			}
			lc.Data = append(append([]byte{}, data...), make([]byte, extra)...)
			touch := ""
			if ln+extra > 0 {
				touch = "\t\tp[0]++ // the array must be writable and private\n"
			}
			fmt.Fprintf(&mainBody, "\t{\n\t\tp := &[%d]byte{%s}\n\t\temit(%d, p[:])\n%s\t}\n", ln+extra, goByteElems(data, r), i, touch)
		}
		lp.Cases = append(lp.Cases, lc)
	}
	var sb strings.Builder
	sb.WriteString(litPrelude)
	sb.WriteString("\n")
	sb.WriteString(decls.String())
	sb.WriteString("\nfunc init() {\n")
	sb.WriteString(initBody.String())
	sb.WriteString("}\n\nfunc main() {\n")
	sb.WriteString(mainBody.String())
	sb.WriteString("}\n")
	lp.Src = sb.String()
	return lp
}

// expectedOutput renders the exact stderr the program must print.
func (lp *LitProg) expectedOutput() string {
	// main's emits happen in case order, except deferred ones which run at the end
	// of their own closure (still in order), so a plain sequence is right.
	var sb strings.Builder
	for _, c := range lp.Cases {
		fmt.Fprintf(&sb, "%d %s\n", c.Idx, hex.EncodeToString(c.Data))
	}
	return sb.String()
}
