package main

import (
	"bufio"
	"os"
	"path/filepath"
	"regexp"
	"strings"
)

// ---------------------------------------------------------------------------
// Hook-free file-mutation monitor: the command runs under `strace -f`, and the
// syscall log is checked offline for successful mutations outside allowed roots.

var straceSyscalls = "openat,open,creat,unlink,unlinkat,rename,renameat,renameat2,mkdir,mkdirat,rmdir,chmod,fchmodat,truncate,symlink,symlinkat,link,linkat"

var (
	rxStraceLine = regexp.MustCompile(`^(\d+)\s+(\w+)\((.*)\)\s+=\s+(-?\d+)`)
	rxQuoted     = regexp.MustCompile(`"((?:[^"\\]|\\.)*)"`)
	// a directory descriptor argument as `strace -y` prints it, followed by the path it qualifies:
	// 10</abs/dir>, "name"   or   AT_FDCWD</abs/cwd>, "name"
	rxAtPath = regexp.MustCompile(`(?:AT_FDCWD|\d+)<((?:[^>\\]|\\.)*)>,\s*"((?:[^"\\]|\\.)*)"`)
)

type fsMutation struct {
	Syscall string
	Path    string
	Line    string
}

// straceArgv prefixes argv with strace writing to logPath.
func straceArgv(logPath string, argv []string) []string {
	// -y prints the path behind every descriptor, so that a path relative to a directory descriptor
	// (os.RemoveAll uses unlinkat(dirfd, "name")) or to a child's own working directory resolves exactly.
	return append([]string{"strace", "-f", "-qq", "-y", "-s", "512", "-e", "trace=" + straceSyscalls, "-o", logPath}, argv...)
}

// parseStraceMutations returns the successful calls that create, modify or delete a path.
func parseStraceMutations(logPath, cwd string) ([]fsMutation, int) {
	f, err := os.Open(logPath)
	if err != nil {
		return nil, 0
	}
	defer f.Close()
	var out []fsMutation
	total := 0
	sc := bufio.NewScanner(f)
	sc.Buffer(make([]byte, 1<<20), 1<<26)
	for sc.Scan() {
		line := sc.Text()
		m := rxStraceLine.FindStringSubmatch(line)
		if m == nil {
			continue
		}
		total++
		name, args, ret := m[2], m[3], m[4]
		if strings.HasPrefix(ret, "-") {
			continue // failed call
		}
		paths := rxQuoted.FindAllStringSubmatch(args, -1)
		if len(paths) == 0 {
			continue
		}
		// paths qualified by a directory descriptor resolve against that directory, not against cwd
		dirOf := map[string]string{}
		for _, ap := range rxAtPath.FindAllStringSubmatch(args, -1) {
			if !filepath.IsAbs(ap[2]) {
				dirOf[ap[2]] = strings.TrimSuffix(ap[1], " (deleted)")
			}
		}
		mutating := false
		var targets []string
		switch name {
		case "open", "openat", "creat":
			if name == "creat" || strings.Contains(args, "O_WRONLY") || strings.Contains(args, "O_RDWR") || strings.Contains(args, "O_CREAT") || strings.Contains(args, "O_TRUNC") {
				mutating = true
			}
			targets = []string{paths[0][1]}
		case "rename", "renameat", "renameat2", "link", "linkat", "symlink", "symlinkat":
			mutating = true
			for _, p := range paths {
				targets = append(targets, p[1])
			}
			if name == "symlink" || name == "symlinkat" {
				targets = []string{paths[len(paths)-1][1]} // the link path; the target string is not touched
			}
		default: // unlink*, mkdir*, rmdir, chmod, fchmodat, truncate
			mutating = true
			targets = []string{paths[0][1]}
		}
		if !mutating {
			continue
		}
		for _, p := range targets {
			if !filepath.IsAbs(p) {
				if d, ok := dirOf[p]; ok && filepath.IsAbs(d) {
					p = filepath.Join(d, p)
				} else {
					p = filepath.Join(cwd, p)
				}
			}
			out = append(out, fsMutation{name, filepath.Clean(p), line})
		}
	}
	return out, total
}

// outsideRoots filters the mutations that touch a path outside all allowed roots.
func outsideRoots(ms []fsMutation, roots []string) []fsMutation {
	var bad []fsMutation
	for _, m := range ms {
		ok := false
		for _, r := range roots {
			if r == "" {
				continue
			}
			if m.Path == r || strings.HasPrefix(m.Path, strings.TrimSuffix(r, "/")+"/") {
				ok = true
				break
			}
		}
		if !ok {
			bad = append(bad, m)
		}
	}
	return bad
}
