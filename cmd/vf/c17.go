package main

import (
	"fmt"
	"os"
	"path/filepath"
	"sort"
	"strconv"
	"strings"
	"sync"
	"time"

	"github.com/anishathalye/porcupine"
)

func init() { register("C17", "exploration", checkC17) }

type concCmd struct {
	Proj  string // project name
	Cfg   Config
	Extra []string // extra build flags (-p=N)
	Fail  string   // GARBLE_VERIF_FAIL spec
}

type concScenario struct {
	Name  string
	State string // warm | warm-nolinker | stale-stamp | garble-cold | fully-cold
	Cmds  []concCmd
	// After[i] = "<cmd index>:<event kind>": command i starts when that command has logged the event
	// (absent: starts at once).
	After map[int]string
	// Release[i] = "<point>:<cmd index j>": command i is held at that failpoint (action hold) until the
	// link step of command j is blocked in flock(2) on the linker lock (or has finished); the monitor
	// then creates the release file. The schedule is decided by observed process state, not by a delay.
	Release map[int]string
}

// linkStepState polls the link toolexec process of a command (pid from its toolexec.begin event):
// "blocked" once one of its threads sits in flock(2) on two consecutive polls, "finished" when the
// step has ended, "timeout" otherwise.
func linkStepState(logDir string, max time.Duration) string {
	deadline := time.Now().Add(max)
	streak := 0
	for time.Now().Before(deadline) {
		pid := 0
		for _, e := range readEvents(logDir) {
			if e.Kind == "toolexec.begin" && e.Str("tool") == "link" && e.Pkg != "" {
				pid = e.Pid
			}
			if e.Kind == "toolexec.end" && e.Str("tool") == "link" && e.Pid == pid && pid != 0 {
				return "finished"
			}
		}
		inFlock := false
		if pid != 0 {
			tasks, _ := filepath.Glob(fmt.Sprintf("/proc/%d/task/*/syscall", pid))
			for _, t := range tasks {
				if data, err := os.ReadFile(t); err == nil && strings.HasPrefix(string(data), "73 ") { // SYS_FLOCK on amd64
					inFlock = true
				}
			}
		}
		if inFlock {
			streak++
			if streak >= 2 {
				return "blocked"
			}
		} else {
			streak = 0
		}
		time.Sleep(40 * time.Millisecond)
	}
	return "timeout"
}

func concProjects(seed int64) map[string]*Prog {
	mk := func(label string) *Prog {
		return generate(subRand(seed, "c17", label), GenOpts{NoTests: true, MinFeats: 5, MaxFeats: 8})
	}
	return map[string]*Prog{"A": mk("A"), "B": mk("B")}
}

// cacheOp is the porcupine input/output of one package-cache operation.
type cacheOp struct {
	Key    string
	Put    bool
	Digest string // put: written digest; get: loaded digest, "" = miss
}

// cacheModel: per key, a register that is never deleted during a scenario.
// State "?" = unknown initial content.
var cacheModel = porcupine.Model{
	Partition: func(history []porcupine.Operation) [][]porcupine.Operation {
		m := map[string][]porcupine.Operation{}
		for _, op := range history {
			k := op.Input.(cacheOp).Key
			m[k] = append(m[k], op)
		}
		var keys []string
		for k := range m {
			keys = append(keys, k)
		}
		sort.Strings(keys)
		var out [][]porcupine.Operation
		for _, k := range keys {
			out = append(out, m[k])
		}
		return out
	},
	Init: func() any { return "?" },
	Step: func(state, input, output any) (bool, any) {
		st := state.(string)
		in := input.(cacheOp)
		if in.Put {
			return true, in.Digest
		}
		got := output.(string)
		switch {
		case st == "?":
			return true, got // first observation fixes the unknown initial content ("" = absent)
		case got == st:
			return true, st
		}
		return false, st
	},
	DescribeOperation: func(input, output any) string {
		in := input.(cacheOp)
		if in.Put {
			return fmt.Sprintf("put(%s, %s)", in.Key, in.Digest)
		}
		return fmt.Sprintf("get(%s) -> %q", in.Key, output)
	},
}

func checkC17(c *Ctx) {
	c.SetRule("scenarios of N in {2,3,4,8} garble builds started at the same instant over one shared GOCACHE, GARBLE_CACHE and TMPDIR: identical commands, commands differing in flags (-tiny) and in project, with -p in {1,2,16}; start states: warm cache with a new program, warm cache with the patched linker deleted, stale linker stamp, garble-cold (plain std only), fully cold (nothing, not even the linker); " +
		"failpoints (hook sleeps after the linker build, before the stamp, before package-cache writes) widen the windows; three staged schedules hold one command at a failpoint (about to build the linker / linker built, not stamped / stamped, not executed) until the monitor sees the other command's link step blocked in flock(2) on the linker lock (/proc/<pid>/task/*/syscall), then release it. Oracles: every command exits 0 and its binary's sha256 equals the same command's isolated build; every linker digest executed (link.exec events) equals the digest of a completely built linker (link.build.end) or of the pre-existing one; " +
		"per cache key all writers wrote the same bytes; the recorded package-cache history (get/put intervals from one CLOCK_MONOTONIC) is linearizable against a per-key register model (porcupine, 60 s budget, timeout => inconclusive); no garble temp entries remain in the shared TMPDIR. " +
		"distinct_nontrivial = distinct (scenario, overlap class) where >=2 top-level commands had link steps or package-cache operations on the same key overlapping in time.")
	c.Assume("no cache trim deletes entries during a scenario (entries are minutes old; trims remove entries older than days)", "isolated reference builds are reproducible (C03)")
	g := buildGarble("", false)
	pool := warmPool(g, false, K0, K1, K3)
	projs := concProjects(c.Seed)
	// Isolated references.
	type refKey struct{ proj, cfg string }
	refs := map[refKey]string{}
	var rmu sync.Mutex
	var refJobs []refKey
	cfgByKey := map[string]Config{}
	for _, cfg := range []Config{K0, K1, K3} {
		cfgByKey[cfg.Key()] = cfg
		for p := range projs {
			refJobs = append(refJobs, refKey{p, cfg.Key()})
		}
	}
	parallel(len(refJobs), 4, func(i int) {
		rk := refJobs[i]
		w := materialize(projs[rk.proj], "c17ref")
		defer w.cleanup()
		box := warmClone(pool, "c17refbox")
		defer chmodAndRemove(filepath.Dir(box.GoCache))
		bin := filepath.Join(w.Root, "ref.bin")
		if r := w.garbleBuild(g, box, cfgByKey[rk.cfg], bin, nil); r.OK() {
			rmu.Lock()
			refs[rk] = fileSha(bin)
			rmu.Unlock()
		}
	})
	if len(refs) != len(refJobs) {
		c.Inconclusive("some isolated reference builds failed (judged by C01)")
	}
	sleepy := "link.afterBuild=sleep:400;link.beforeBuild=sleep:150;pkgcache.beforePut=sleep:120;toolexec.beforeExec.link=sleep:50"
	scenarios := []concScenario{
		{Name: "identical-x2-linker-deleted", State: "warm-nolinker", Cmds: []concCmd{{"A", K0, nil, sleepy}, {"A", K0, nil, ""}}},
		{Name: "identical-x3-sleepy-puts", State: "warm", Cmds: []concCmd{{"A", K0, nil, sleepy}, {"A", K0, []string{"-p=2"}, sleepy}, {"A", K0, []string{"-p=1"}, ""}}},
		{Name: "flags-and-projects-x4-stale-stamp", State: "stale-stamp", Cmds: []concCmd{{"A", K0, []string{"-p=16"}, ""}, {"A", K1, nil, sleepy}, {"B", K0, []string{"-p=1"}, ""}, {"B", K3, nil, ""}}},
		{Name: "identical-x8-p2", State: "warm", Cmds: []concCmd{{"B", K0, []string{"-p=2"}, ""}, {"B", K0, []string{"-p=2"}, sleepy}, {"B", K0, []string{"-p=2"}, ""}, {"B", K0, []string{"-p=2"}, ""}, {"B", K0, []string{"-p=2"}, sleepy}, {"B", K0, []string{"-p=2"}, ""}, {"B", K0, []string{"-p=2"}, ""}, {"B", K0, []string{"-p=2"}, ""}}},
		{Name: "mixed-x4-garble-cold", State: "garble-cold", Cmds: []concCmd{{"A", K0, []string{"-p=16"}, ""}, {"A", K0, []string{"-p=1"}, ""}, {"A", K1, []string{"-p=2"}, ""}, {"B", K0, nil, ""}}},
		{Name: "identical-x2-fully-cold", State: "fully-cold", Cmds: []concCmd{{"A", K0, nil, sleepy}, {"A", K0, nil, ""}}},
		// Staged schedules: the second command reaches the linker protocol exactly while the first one sits
		// between "linker built" and "linker stamped/executed".
		{Name: "staged-second-arrives-after-linker-build", State: "warm-nolinker", Cmds: []concCmd{{"A", K0, nil, "link.afterBuild=hold:900000"}, {"A", K0, nil, ""}}, After: map[int]string{1: "0:link.build.end"}, Release: map[int]string{0: "link.afterBuild:1"}},
		{Name: "staged-second-arrives-after-stamp", State: "warm-nolinker", Cmds: []concCmd{{"A", K0, nil, "link.afterStamp=hold:900000;toolexec.beforeExec.link=sleep:1500"}, {"B", K0, nil, ""}}, After: map[int]string{1: "0:link.stamp"}, Release: map[int]string{0: "link.afterStamp:1"}},
		{Name: "staged-second-arrives-during-linker-build", State: "stale-stamp", Cmds: []concCmd{{"A", K0, nil, "link.beforeBuild=hold:900000"}, {"B", K1, nil, ""}}, After: map[int]string{1: "0:link.build.begin"}, Release: map[int]string{0: "link.beforeBuild:1"}},
	}
	if !c.Quick() {
		base := scenarios
		for rep := 0; rep < 2; rep++ {
			for _, s := range base {
				s2 := s
				s2.Name = fmt.Sprintf("%s-rep%d", s.Name, rep+2)
				scenarios = append(scenarios, s2)
			}
		}
		scenarios = append(scenarios,
			concScenario{Name: "flags-x3-fully-cold", State: "fully-cold", Cmds: []concCmd{{"A", K0, nil, ""}, {"A", K1, nil, sleepy}, {"B", K3, nil, ""}}},
			concScenario{Name: "projects-x4-linker-deleted", State: "warm-nolinker", Cmds: []concCmd{{"A", K0, nil, ""}, {"B", K0, nil, sleepy}, {"A", K3, nil, ""}, {"B", K1, nil, ""}}},
		)
	}
	if only := os.Getenv("VERIF_C17_ONLY"); only != "" { // debugging aid: run the scenarios whose name contains this
		var sel []concScenario
		for _, s := range scenarios {
			if strings.Contains(s.Name, only) {
				sel = append(sel, s)
			}
		}
		scenarios = sel
	}
	classes := map[string]int{}
	var cmu sync.Mutex
	// Heavy scenarios run one at a time so that "concurrent" really means concurrent within the scenario.
	for si, sc := range scenarios {
		root := scratch(fmt.Sprintf("c17s%d", si))
		var box *Box
		switch sc.State {
		case "warm", "warm-nolinker", "stale-stamp":
			box = warmClone(pool, fmt.Sprintf("c17box%d", si))
			if sc.State == "warm-nolinker" {
				os.RemoveAll(filepath.Join(box.GarbleCache, "tool"))
			}
			if sc.State == "stale-stamp" {
				os.WriteFile(filepath.Join(box.GarbleCache, "tool", "link.version"), []byte("go1.0 stale-stamp\n"), 0o644)
			}
		case "garble-cold":
			box = newColdBox(fmt.Sprintf("c17box%d", si), true)
		case "fully-cold":
			box = newEmptyBox(fmt.Sprintf("c17box%d", si))
		}
		initialLinker := ""
		if st, err := os.Stat(filepath.Join(box.GarbleCache, "tool", "link")); err == nil && sc.State != "stale-stamp" {
			initialLinker = fmt.Sprintf("%d:%s", st.Size(), fileSha(filepath.Join(box.GarbleCache, "tool", "link")))
		}
		type result struct {
			r      Res
			bin    string
			logDir string
		}
		results := make([]result, len(sc.Cmds))
		var works []*Work
		for ci, cmd := range sc.Cmds {
			w := materialize(projs[cmd.Proj], fmt.Sprintf("c17s%dc%d", si, ci))
			works = append(works, w)
			results[ci].bin = filepath.Join(w.Root, "out.bin")
			results[ci].logDir = filepath.Join(root, fmt.Sprintf("log%d", ci))
			must(os.MkdirAll(results[ci].logDir, 0o755))
		}
		start := make(chan struct{})
		var wg sync.WaitGroup
		for ci, cmd := range sc.Cmds {
			wg.Add(1)
			go func(ci int, cmd concCmd) {
				defer wg.Done()
				env := []string{"GARBLE_VERIF_LOG=" + results[ci].logDir}
				if cmd.Fail != "" {
					env = append(env, "GARBLE_VERIF_FAIL="+cmd.Fail)
				}
				<-start
				if after := sc.After[ci]; after != "" {
					// Staged start: wait until another command of the scenario has reached a given point
					// (a harness-controlled schedule; every such schedule is reachable without the harness).
					var idx int
					var kind string
					fmt.Sscanf(strings.Replace(after, ":", " ", 1), "%d %s", &idx, &kind)
					deadline := time.Now().Add(15 * time.Minute)
					for time.Now().Before(deadline) {
						if countKind(readEvents(results[idx].logDir), kind) > 0 {
							break
						}
						time.Sleep(50 * time.Millisecond)
					}
				}
				results[ci].r = works[ci].garbleBuild(g, box, cmd.Cfg, results[ci].bin, env, cmd.Extra...)
			}(ci, cmd)
		}
		staged := map[string]string{}
		var smu sync.Mutex
		for ci, rel := range sc.Release {
			wg.Add(1)
			go func(ci int, rel string) {
				defer wg.Done()
				point, other, _ := strings.Cut(rel, ":")
				j, _ := strconv.Atoi(other)
				<-start
				st := linkStepState(results[j].logDir, 800*time.Second)
				os.WriteFile(filepath.Join(results[ci].logDir, "release-"+point), nil, 0o644)
				smu.Lock()
				staged[point] = st
				smu.Unlock()
			}(ci, rel)
		}
		close(start)
		wg.Wait()
		for point, st := range staged {
			c.Count("staged_release_"+st, 1)
			if st == "blocked" {
				cmu.Lock()
				classes[sc.Name+"|held-at-"+point+"-while-other-waits-on-lock"]++
				cmu.Unlock()
				c.Nontrivial(sc.Name + "|held-at-" + point + "-while-other-waits-on-lock")
			}
		}
		files := func() map[string]string {
			m := map[string]string{"scenario.json": jsonStr(sc)}
			for ci := range sc.Cmds {
				m[fmt.Sprintf("cmd%d-output.txt", ci)] = results[ci].r.String()
			}
			for name, content := range projs["A"].Files {
				m["projA/"+name] = content
			}
			return m
		}
		timedOut := false
		for ci, cmd := range sc.Cmds {
			res := results[ci]
			if res.r.TimedOut {
				timedOut = true
				continue
			}
			c.Eval("")
			if !res.r.OK() {
				c.Violate("concurrent-build-fails/"+sc.State, fmt.Sprintf("scenario %s: command %d (%s %s %v) fails when run concurrently: %s", sc.Name, ci, cmd.Proj, cmd.Cfg.Name, cmd.Extra, clip(res.r.Err, 800)), files())
				continue
			}
			want, ok := refs[refKey{cmd.Proj, cmd.Cfg.Key()}]
			if ok && fileSha(res.bin) != want {
				c.Violate("concurrent-binary-differs/"+sc.State, fmt.Sprintf("scenario %s: command %d (%s %s %v) produced sha256 %s, alone it produces %s", sc.Name, ci, cmd.Proj, cmd.Cfg.Name, cmd.Extra, fileSha(res.bin)[:16], want[:16]), files())
			}
		}
		if timedOut {
			c.Inconclusive("scenario watchdog fired: " + sc.Name)
		}
		// Shared TMPDIR must be free of garble leftovers.
		if ents, err := os.ReadDir(box.Tmp); err == nil {
			for _, e := range ents {
				if rxGarbleTmp.MatchString(e.Name()) {
					c.Violate("tmpdir-leftover", fmt.Sprintf("scenario %s: shared TMPDIR still holds %s after all commands exited", sc.Name, e.Name()), files())
				}
			}
		}
		// ---- event-log monitors
		type linkSpan struct {
			cmd        int
			begin, end int64
		}
		built := map[string]bool{}
		if initialLinker != "" {
			built[initialLinker] = true
		}
		var execs []Event
		var spans []linkSpan
		var ops []porcupine.Operation
		putDigests := map[string]map[string]bool{}
		lockOrder := []string{}
		type lockEv struct {
			t   int64
			cmd int
		}
		var locks []lockEv
		builders := map[int]bool{}
		for ci, cmd := range sc.Cmds {
			evs := readEvents(results[ci].logDir)
			begin := map[int]int64{}
			getBegin := map[string]int64{} // pid|for -> t
			putBegin := map[string]Event{}
			for _, e := range evs {
				switch e.Kind {
				case "link.build.end":
					built[e.Str("digest")] = true
					builders[ci] = true
				case "link.exec":
					execs = append(execs, e)
				case "link.lock":
					locks = append(locks, lockEv{e.T, ci})
				case "toolexec.begin":
					if e.Str("tool") == "link" && e.Pkg != "" {
						begin[e.Pid] = e.T
					}
				case "toolexec.end":
					if e.Str("tool") == "link" {
						if b, ok := begin[e.Pid]; ok {
							spans = append(spans, linkSpan{ci, b, e.T})
						}
					}
				case "pkgcache.get.begin":
					getBegin[fmt.Sprint(e.Pid, "|", e.Str("for"))] = e.T
				case "pkgcache.get":
					k := fmt.Sprint(e.Pid, "|", e.Str("for"))
					key := e.Str("for") + "|" + cmd.Proj + "|" + cmd.Cfg.Key()
					if !e.Bool("hit") {
						if b, ok := getBegin[k]; ok {
							ops = append(ops, porcupine.Operation{ClientId: ci, Input: cacheOp{Key: key}, Call: b, Output: "", Return: e.T})
							delete(getBegin, k)
						}
					}
				case "pkgcache.loaded":
					k := fmt.Sprint(e.Pid, "|", e.Str("for"))
					key := e.Str("for") + "|" + cmd.Proj + "|" + cmd.Cfg.Key()
					if b, ok := getBegin[k]; ok {
						ops = append(ops, porcupine.Operation{ClientId: ci, Input: cacheOp{Key: key}, Call: b, Output: e.Str("digest"), Return: e.T})
						delete(getBegin, k)
					}
				case "pkgcache.put":
					putBegin[fmt.Sprint(e.Pid, "|", e.Str("for"))] = e
				case "pkgcache.put.end":
					k := fmt.Sprint(e.Pid, "|", e.Str("for"))
					key := e.Str("for") + "|" + cmd.Proj + "|" + cmd.Cfg.Key()
					if b, ok := putBegin[k]; ok {
						ops = append(ops, porcupine.Operation{ClientId: ci, Input: cacheOp{Key: key, Put: true, Digest: e.Str("digest")}, Call: b.T, Output: "", Return: e.T})
						if putDigests[key] == nil {
							putDigests[key] = map[string]bool{}
						}
						putDigests[key][e.Str("digest")] = true
						delete(putBegin, k)
					}
				}
			}
		}
		// porcupine wants unique client ids per concurrent operation stream: one per process would be ideal,
		// but a command's toolexec processes overlap; give every operation its own client id.
		for i := range ops {
			ops[i].ClientId = i
		}
		sort.Slice(locks, func(i, j int) bool { return locks[i].t < locks[j].t })
		for _, l := range locks {
			lockOrder = append(lockOrder, fmt.Sprint(l.cmd))
		}
		for _, e := range execs {
			c.Eval("")
			if !built[e.Str("digest")] {
				c.Violate("linker-used-unfinished/"+sc.State, fmt.Sprintf("scenario %s: a link step executed a linker with digest %s, which is not the digest of any completely built linker (%v)", sc.Name, e.Str("digest"), sortedKeys(built)), files())
			}
		}
		for key, ds := range putDigests {
			c.Eval("")
			if len(ds) > 1 {
				c.Violate("cache-writers-disagree", fmt.Sprintf("scenario %s: concurrent writers stored different bytes under cache key %s: %v", sc.Name, key, sortedKeys(ds)), files())
			}
		}
		if len(ops) > 0 {
			res, _ := porcupine.CheckOperationsVerbose(cacheModel, ops, 60*time.Second)
			c.Eval("")
			c.Count("porcupine.operations", len(ops))
			switch res {
			case porcupine.Illegal:
				c.Violate("cache-history-not-linearizable", fmt.Sprintf("scenario %s: the recorded package-cache history (%d operations) is not linearizable: some read missed or returned other bytes after a write to the same key had completed", sc.Name, len(ops)), files())
			case porcupine.Unknown:
				c.Inconclusive("porcupine timed out on scenario " + sc.Name)
			}
		}
		// overlap classes
		overlapLink := false
		for i := range spans {
			for j := i + 1; j < len(spans); j++ {
				if spans[i].cmd != spans[j].cmd && spans[i].begin < spans[j].end && spans[j].begin < spans[i].end {
					overlapLink = true
				}
			}
		}
		sameKeyConc := false
		byKey := map[string][]porcupine.Operation{}
		for _, op := range ops {
			k := op.Input.(cacheOp).Key
			byKey[k] = append(byKey[k], op)
		}
		for _, kops := range byKey {
			for i := range kops {
				for j := i + 1; j < len(kops); j++ {
					if kops[i].Call < kops[j].Return && kops[j].Call < kops[i].Return {
						sameKeyConc = true
					}
				}
			}
		}
		var bl []string
		for b := range builders {
			bl = append(bl, fmt.Sprint(b))
		}
		sort.Strings(bl)
		class := fmt.Sprintf("locks=%s builders=%s linkOverlap=%v sameKeyOverlap=%v", strings.Join(lockOrder, ""), strings.Join(bl, ","), overlapLink, sameKeyConc)
		cmu.Lock()
		classes[sc.Name+": "+class]++
		cmu.Unlock()
		if overlapLink || sameKeyConc {
			c.Nontrivial(sc.Name + "|" + class)
		}
		if si == 0 {
			c.Sample(map[string]any{"scenario": sc, "interleaving_class": class, "cache_operations_recorded": len(ops), "link_exec_events": len(execs)})
		}
		for _, w := range works {
			w.cleanup()
		}
		chmodAndRemove(filepath.Dir(box.GoCache))
		chmodAndRemove(root)
	}
	c.Extra("interleaving_classes_observed", classes)
}
