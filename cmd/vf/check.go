package main

import (
	"bufio"
	"encoding/json"
	"fmt"
	"math/rand"
	"os"
	"path/filepath"
	"sort"
	"strings"
	"sync"
	"time"
)

// ---------------------------------------------------------------------------
// Check context: verdict discipline, evidence, known findings.

type Check struct {
	ID    string
	Level string // exploration | fault_enumeration
	Run   func(c *Ctx)
}

var checks = map[string]*Check{}

func register(id, level string, run func(c *Ctx)) {
	checks[id] = &Check{ID: id, Level: level, Run: run}
}

type Violation struct {
	Key    string // class key (matched against KNOWN_FINDINGS.txt)
	What   string
	Replay string
}

type Ctx struct {
	ID    string
	Tier  string
	Seed  int64
	Level string
	Rng   *rand.Rand
	start time.Time

	mu           sync.Mutex
	evaluations  int
	nontrivial   map[string]bool
	samples      []any
	extra        map[string]any
	counters     map[string]int
	violations   []Violation
	knownHits    map[string]string // key -> what
	inconclusive []string
	rule         string
	assumptions  []string
	findings     []Finding
}

func (c *Ctx) Quick() bool { return c.Tier == "quick" }

// pick returns q for the quick tier and t for thorough.
func (c *Ctx) pick(q, t int) int {
	if c.Quick() {
		return q
	}
	return t
}

func (c *Ctx) SetRule(r string)      { c.rule = r }
func (c *Ctx) Assume(a ...string)     { c.assumptions = append(c.assumptions, a...) }
func (c *Ctx) Logf(f string, a ...any) { fmt.Printf("[%s] "+f+"\n", append([]any{c.ID}, a...)...) }

// Eval counts one oracle application. sig!="" marks it as a distinct non-trivial case.
func (c *Ctx) Eval(sig string) {
	c.mu.Lock()
	defer c.mu.Unlock()
	c.evaluations++
	if sig != "" {
		c.nontrivial[sig] = true
	}
}

func (c *Ctx) EvalN(n int) {
	c.mu.Lock()
	defer c.mu.Unlock()
	c.evaluations += n
}

func (c *Ctx) Nontrivial(sig string) {
	c.mu.Lock()
	defer c.mu.Unlock()
	c.nontrivial[sig] = true
}

func (c *Ctx) Count(name string, n int) {
	c.mu.Lock()
	defer c.mu.Unlock()
	c.counters[name] += n
}

func (c *Ctx) Counter(name string) int {
	c.mu.Lock()
	defer c.mu.Unlock()
	return c.counters[name]
}

func (c *Ctx) Sample(s any) {
	c.mu.Lock()
	defer c.mu.Unlock()
	if len(c.samples) < 6 {
		c.samples = append(c.samples, s)
	}
}

func (c *Ctx) Extra(k string, v any) {
	c.mu.Lock()
	defer c.mu.Unlock()
	c.extra[k] = v
}

func (c *Ctx) Inconclusive(why string) {
	c.mu.Lock()
	defer c.mu.Unlock()
	c.inconclusive = append(c.inconclusive, why)
	fmt.Printf("[%s] INCONCLUSIVE: %s\n", c.ID, firstLine(why))
}

func firstLine(s string) string {
	if i := strings.IndexByte(s, '\n'); i >= 0 {
		return s[:i]
	}
	return s
}

// Violate records a violation of class key. files are written to a replay dir.
func (c *Ctx) Violate(key, what string, files map[string]string) {
	c.mu.Lock()
	defer c.mu.Unlock()
	if f := c.matchFinding(key); f != nil {
		if _, seen := c.knownHits[f.Key]; !seen {
			c.knownHits[f.Key] = f.What
		}
		return
	}
	n := len(c.violations)
	if n >= 25 {
		// Enough witnesses saved; keep counting.
		c.violations = append(c.violations, Violation{Key: key, What: what})
		return
	}
	dir := filepath.Join(verifRoot, "replays", c.ID, fmt.Sprintf("%s-s%d-%03d", c.Tier, c.Seed, n))
	os.RemoveAll(dir)
	os.MkdirAll(dir, 0o755)
	if files == nil {
		files = map[string]string{}
	}
	files["VIOLATION.txt"] = fmt.Sprintf("property=%s\nkey=%s\ntier=%s seed=%d\n\n%s\n", c.ID, key, c.Tier, c.Seed, what)
	for name, content := range files {
		p := filepath.Join(dir, name)
		os.MkdirAll(filepath.Dir(p), 0o755)
		os.WriteFile(p, []byte(content), 0o644)
	}
	c.violations = append(c.violations, Violation{Key: key, What: what, Replay: dir})
	fmt.Printf("[%s] violation key=%s: %s\n", c.ID, key, firstLine(what))
	if len(c.violations) <= 5 {
		fmt.Printf("VIOLATION property=%s replay=%s\n", c.ID, dir)
	}
}

func (c *Ctx) NumViolations() int {
	c.mu.Lock()
	defer c.mu.Unlock()
	return len(c.violations)
}

// ---------------------------------------------------------------------------
// Known findings file.

type Finding struct {
	Kind     string // finding | fixed
	Property string
	Key      string
	What     string
}

func loadFindings() []Finding {
	f, err := os.Open(filepath.Join(verifRoot, "KNOWN_FINDINGS.txt"))
	if err != nil {
		return nil
	}
	defer f.Close()
	var out []Finding
	sc := bufio.NewScanner(f)
	for sc.Scan() {
		line := strings.TrimSpace(sc.Text())
		if line == "" || strings.HasPrefix(line, "#") {
			continue
		}
		kind, rest, ok := strings.Cut(line, ":")
		if !ok {
			continue
		}
		kind = strings.TrimSpace(kind)
		fd := Finding{Kind: kind}
		fields := strings.Fields(rest)
		var what []string
		for _, w := range fields {
			switch {
			case strings.HasPrefix(w, "property=") && fd.Property == "":
				fd.Property = strings.TrimPrefix(w, "property=")
			case strings.HasPrefix(w, "key=") && fd.Key == "":
				fd.Key = strings.TrimPrefix(w, "key=")
			default:
				what = append(what, w)
			}
		}
		fd.What = strings.Join(what, " ")
		out = append(out, fd)
	}
	return out
}

// matchFinding: only "finding:" lines suppress; key must match exactly.
func (c *Ctx) matchFinding(key string) *Finding {
	for i := range c.findings {
		f := &c.findings[i]
		if f.Kind == "finding" && f.Property == c.ID && keyMatches(f.Key, key) {
			return f
		}
	}
	return nil
}

// keyMatches compares class keys segment by segment ("/"-separated); a "*"
// segment in the listed key stands for exactly one arbitrary segment.
func keyMatches(listed, key string) bool {
	a, b := strings.Split(listed, "/"), strings.Split(key, "/")
	if len(a) != len(b) {
		return false
	}
	for i := range a {
		if a[i] != "*" && a[i] != b[i] {
			return false
		}
	}
	return true
}

// HasFinding tells generators whether a class is a listed known finding.
func (c *Ctx) HasFinding(key string) bool { return c.matchFinding(key) != nil }

// ---------------------------------------------------------------------------
// Running one check.

func runCheck(id, tier string, seed int64) int {
	ck := checks[id]
	if ck == nil {
		fatalf("unknown check %q", id)
	}
	c := &Ctx{
		ID: id, Tier: tier, Seed: seed, Level: ck.Level,
		Rng:        subRand(seed, id, tier),
		start:      time.Now(),
		nontrivial: map[string]bool{},
		extra:      map[string]any{},
		counters:   map[string]int{},
		knownHits:  map[string]string{},
		findings:   loadFindings(),
	}
	evPath := filepath.Join(verifRoot, "evidence", id+".json")
	os.MkdirAll(filepath.Dir(evPath), 0o755)
	os.Remove(evPath)
	os.RemoveAll(filepath.Join(verifRoot, "replays", id))

	func() {
		defer func() {
			if r := recover(); r != nil {
				// A harness panic is a broken check, not a verdict.
				fmt.Fprintf(os.Stderr, "ERROR: check %s panicked: %v\n", id, r)
				panic(r)
			}
		}()
		ck.Run(c)
	}()

	wall := time.Since(c.start).Seconds()
	keys := make([]string, 0, len(c.knownHits))
	for k := range c.knownHits {
		keys = append(keys, k)
	}
	sort.Strings(keys)
	for _, k := range keys {
		fmt.Printf("KNOWN-FINDING: property=%s key=%s %s\n", id, k, c.knownHits[k])
	}
	cov := map[string]any{
		"evaluations":         c.evaluations,
		"distinct_nontrivial": len(c.nontrivial),
		"rule":                c.rule,
		"samples":             c.samples,
		"counters":            c.counters,
		"inconclusive":        len(c.inconclusive),
		"known_findings_hit":  keys,
	}
	if len(c.inconclusive) > 0 {
		n := len(c.inconclusive)
		if n > 5 {
			n = 5
		}
		cov["inconclusive_samples"] = c.inconclusive[:n]
	}
	for k, v := range c.extra {
		cov[k] = v
	}
	if cov["samples"] == nil {
		cov["samples"] = []any{}
	}
	ev := map[string]any{
		"property_id": id,
		"tier":        tier,
		"seed":        seed,
		"level":       c.Level,
		"coverage":    cov,
		"assumptions": c.assumptions,
		"wall_s":      wall,
		"violations":  len(c.violations),
	}
	data, _ := json.MarshalIndent(ev, "", " ")
	must(os.WriteFile(evPath, append(data, '\n'), 0o644))

	fmt.Printf("[%s] tier=%s seed=%d evaluations=%d distinct_nontrivial=%d inconclusive=%d known=%d violations=%d wall=%.0fs\n",
		id, tier, seed, c.evaluations, len(c.nontrivial), len(c.inconclusive), len(keys), len(c.violations), wall)
	ck2 := sortedKeys(c.counters)
	for _, k := range ck2 {
		fmt.Printf("[%s]   %s = %d\n", id, k, c.counters[k])
	}
	if len(c.violations) > 0 {
		return 1
	}
	if c.evaluations == 0 || len(c.nontrivial) < 2 {
		fmt.Fprintf(os.Stderr, "ERROR: check %s observed nothing (evaluations=%d nontrivial=%d): broken check, not a verdict\n", id, c.evaluations, len(c.nontrivial))
		return 2
	}
	return 0
}
