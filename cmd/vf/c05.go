package main

import (
	"encoding/json"
	"fmt"
	"os"
	"path/filepath"
	"strings"
	"time"
)

func init() { register("C05", "exploration", checkC05) }

var obfuscatorNames = []string{"simple", "swap", "split", "shuffle", "seed"}

func lenClass(n int) string {
	switch {
	case n < 8:
		return "<8"
	case n == 8:
		return "8"
	case n <= 255:
		return "9-255"
	case n == 256:
		return "256"
	case n <= 2047:
		return "257-2047"
	case n == 2048:
		return "2048"
	}
	return ">2048"
}

// compareLitOutput compares the program's stderr with the expected lines and
// returns the first mismatching case.
func compareLitOutput(lp *LitProg, got []byte) (bad *LitCase, detail string) {
	want := lp.expectedOutput()
	if string(got) == want {
		return nil, ""
	}
	gl, wl := lines(got), lines([]byte(want))
	for i := 0; i < len(wl); i++ {
		g := "<missing>"
		if i < len(gl) {
			g = gl[i]
		}
		if g != wl[i] {
			c := &lp.Cases[i]
			return c, fmt.Sprintf("literal #%d (form %s, position %s, %d bytes): want %q got %q", c.Idx, c.Form, c.Pos, len(c.Data), clip([]byte(wl[i]), 200), clip([]byte(g), 200))
		}
	}
	return &lp.Cases[len(lp.Cases)-1], fmt.Sprintf("extra output: %q", clip(got[len(want):], 300))
}

func checkC05(c *Ctx) {
	c.SetRule("import-free programs with ~120 literals each: forms {string, typed string, folded concatenation, const reference (also used as array length and case label), []byte, [N]byte, &[]byte, &[N]byte} x " +
		"16 syntactic positions x lengths {0,1,7,8,9,15,16,17,31,64,255,256,257,1000,2047,2048,2049,random} x byte classes {ASCII, all 256 values, UTF-8, NUL-heavy, ascending}. " +
		"(1) in-process: the tree's literals.Obfuscate is applied with each of the 5 obfuscators forced and with random choice, for several PRNG seeds; the result is built with go build and its printed hex lines compared with the source bytes. " +
		"(2) end-to-end: the same programs plus -ldflags=-X targets through garble -literals, differential against go build. " +
		"distinct_nontrivial = distinct (obfuscator, form, position, length) of in-window literals in runs where the hook reported rewritten literals.")
	c.Assume("the Go compiler and the regular build of the unobfuscated program are the reference")
	seeds := c.pick(3, 40)
	nlits := c.pick(110, 140)
	type job struct {
		Src  string `json:"src"`
		Dst  string `json:"dst"`
		Obf  int    `json:"obf"`
		Seed int64  `json:"seed"`
		Err  string `json:"err,omitempty"`
		lp   *LitProg
		dir  string
	}
	root := scratch("c05")
	var jobs []*job
	for obf := -1; obf < 5; obf++ {
		for s := 0; s < seeds; s++ {
			r := subRand(c.Seed, "c05", c.Tier, obf, s)
			lp := genLitProg(r, nlits)
			dir := filepath.Join(root, fmt.Sprintf("o%d-s%d", obf, s))
			must(os.MkdirAll(filepath.Join(dir, "plain"), 0o755))
			must(os.MkdirAll(filepath.Join(dir, "obf"), 0o755))
			src := filepath.Join(dir, "plain", "main.go")
			must(os.WriteFile(src, []byte(lp.Src), 0o644))
			jobs = append(jobs, &job{Src: src, Dst: filepath.Join(dir, "obf", "main.go"), Obf: obf, Seed: r.Int63(), lp: lp, dir: dir})
		}
	}
	jobsPath := filepath.Join(root, "jobs.json")
	data, _ := json.Marshal(jobs)
	must(os.WriteFile(jobsPath, data, 0o644))
	outPath := filepath.Join(root, "jobs-out.json")
	logDir := filepath.Join(root, "log")
	must(os.MkdirAll(logDir, 0o755))
	r := runDriver("internal/literals", "c05_driver_test.go", "^TestVerifC05$", []string{"VERIF_JOBS=" + jobsPath, "VERIF_OUT=" + outPath, "GARBLE_VERIF_LOG=" + logDir}, 30*time.Minute, "")
	outData, err := os.ReadFile(outPath)
	if err != nil {
		if r.TimedOut {
			c.Inconclusive("literal driver watchdog fired")
		} else {
			c.Violate("driver/crash", "in-process literal driver failed:\n"+r.String(), nil)
		}
	} else {
		var res []job
		must(json.Unmarshal(outData, &res))
		// Coverage matrix from the hook.
		matrix := map[string]int{}
		nEvents := 0
		for _, e := range readEvents(logDir) {
			if e.Kind == "lit" {
				nEvents++
				obf := strings.TrimPrefix(e.Str("obf"), "literals.")
				matrix[fmt.Sprintf("%s/%s/%s", obf, e.Str("form"), lenClass(int(e.Num("len"))))]++
			}
		}
		c.Extra("rewritten_literals_by_obfuscator_form_length", matrix)
		c.Count("inprocess.rewritten_literals", nEvents)
		buildEnv := plainEnv()
		parallel(len(jobs), 12, func(i int) {
			j := jobs[i]
			obfName := "random"
			if j.Obf >= 0 {
				obfName = obfuscatorNames[j.Obf]
			}
			files := func(extra map[string]string) map[string]string {
				m := map[string]string{"plain/main.go": j.lp.Src, "job.txt": fmt.Sprintf("obfuscator=%s prng_seed=%d\n", obfName, j.Seed)}
				if d, err := os.ReadFile(j.Dst); err == nil {
					m["obfuscated/main.go"] = string(d)
				}
				for k, v := range extra {
					m[k] = v
				}
				return m
			}
			if res[i].Err != "" {
				c.Eval("")
				c.Violate("obfuscate-fails/"+obfName, fmt.Sprintf("literals.Obfuscate (%s, seed %d) failed: %s", obfName, j.Seed, res[i].Err), files(nil))
				return
			}
			// Generator self-check on the untouched program.
			pbin := filepath.Join(j.dir, "plain.bin")
			pb := Run(Cmd{Dir: filepath.Dir(j.Src), Env: buildEnv, Argv: []string{"go", "build", "-o", pbin, "main.go"}, Timeout: 10 * time.Minute})
			if !pb.OK() {
				c.Inconclusive("generator bug: literal program rejected by the regular toolchain:\n" + pb.String())
				return
			}
			pr := runBin(pbin, nil, nil, 2*time.Minute)
			if bad, detail := compareLitOutput(j.lp, pr.Err); bad != nil || pr.RC != 0 {
				c.Inconclusive("generator bug: unobfuscated literal program prints unexpected output: " + detail)
				return
			}
			obin := filepath.Join(j.dir, "obf.bin")
			ob := Run(Cmd{Dir: filepath.Dir(j.Dst), Env: buildEnv, Argv: []string{"go", "build", "-o", obin, "main.go"}, Timeout: 10 * time.Minute})
			if ob.TimedOut {
				c.Inconclusive("go build of obfuscated literals timed out")
				return
			}
			if !ob.OK() {
				c.Eval("")
				c.Violate("obfuscated-does-not-compile/"+obfName, fmt.Sprintf("program obfuscated with %s (seed %d) no longer compiles:\n%s", obfName, j.Seed, clip(ob.Err, 3000)), files(nil))
				return
			}
			or := runBin(obin, nil, nil, 2*time.Minute)
			for _, lc := range j.lp.Cases {
				sig := ""
				if lc.Allowed == "" {
					sig = fmt.Sprintf("%s|%s|%s|%d", obfName, lc.Form, lc.Pos, len(lc.Data))
				}
				c.Eval(sig)
			}
			if i == 0 {
				lc := j.lp.Cases[3]
				c.Sample(map[string]any{"obfuscator": obfName, "prng_seed": j.Seed, "literals": len(j.lp.Cases), "example_case": map[string]any{"form": lc.Form, "pos": lc.Pos, "len": len(lc.Data), "allowed": lc.Allowed}})
			}
			if or.TimedOut {
				c.Violate("value/hang/"+obfName, "obfuscated literal program hangs", files(nil))
				return
			}
			if bad, detail := compareLitOutput(j.lp, or.Err); bad != nil || or.RC != 0 {
				key := "value/" + obfName
				if bad != nil {
					key += "/" + bad.Form
				}
				c.Violate(key, fmt.Sprintf("%s (seed %d): rc=%d %s", obfName, j.Seed, or.RC, detail), files(map[string]string{"stderr.txt": clip(or.Err, 20000)}))
			}
		})
	}

	// ---- end to end through garble -literals.
	g := buildGarble("", false)
	cfgs := []Config{K2}
	ne2e := 2
	if !c.Quick() {
		cfgs = []Config{K2, K5, K23}
		ne2e = 12
	}
	pool := warmPool(g, false, cfgs...)
	const xfile = `package main

var xTarget = "default-x-target-value"

var xUntouched = "untouched-long-literal-value"

var xEmpty string

func init() { println("X", xTarget, xUntouched, xEmpty) }
`
	parallel(ne2e*len(cfgs), 6, func(k int) {
		i, cfg := k/len(cfgs), cfgs[k%len(cfgs)]
		rr := subRand(c.Seed, "c05e2e", c.Tier, i)
		lp := genLitProg(rr, nlits)
		p := &Prog{Module: "zqlit.example.com/lits", Files: map[string]string{"go.mod": "module zqlit.example.com/lits\n\ngo 1.26\n", "main.go": lp.Src, "x.go": xfile},
			LdX: []string{"main.xTarget=injected-" + randLower(rr, 6), "main.xEmpty=was-empty-" + randLower(rr, 4)}}
		w := materialize(p, fmt.Sprintf("c05e%d", k))
		defer w.cleanup()
		pbin := filepath.Join(w.Root, "plain.bin")
		if !plainReference(c, w, pbin, false) {
			return
		}
		pr := runBin(pbin, nil, nil, 2*time.Minute)
		logDir := filepath.Join(w.Root, "log")
		must(os.MkdirAll(logDir, 0o755))
		gbin := filepath.Join(w.Root, "garbled.bin")
		gr := w.garbleBuild(g, pool.Box(filepath.Join(w.Root, "tmp")), cfg, gbin, []string{"GARBLE_VERIF_LOG=" + logDir})
		if gr.TimedOut {
			c.Inconclusive("garble -literals build watchdog fired")
			return
		}
		files := func() map[string]string { return w.replayFiles(map[string]string{"config.txt": cfg.Key()}) }
		if !gr.OK() {
			c.Eval("")
			c.Violate("e2e/build-fails", fmt.Sprintf("garble %v build fails on a literal program the regular toolchain builds\n%s", cfg.GFlags, gr), files())
			return
		}
		nlit := countKind(readEvents(logDir), "lit")
		c.Count("e2e.rewritten_literals", nlit)
		or := runBin(gbin, nil, nil, 2*time.Minute)
		for _, lc := range lp.Cases {
			sig := ""
			if lc.Allowed == "" && nlit > 0 {
				sig = fmt.Sprintf("e2e-%s|%s|%s|%d", cfg.Name, lc.Form, lc.Pos, len(lc.Data))
			}
			c.Eval(sig)
		}
		if or.TimedOut {
			c.Violate("e2e/hang", "literal program built by garble hangs", files())
			return
		}
		if string(or.Err) != string(pr.Err) || or.RC != pr.RC {
			// locate the first differing line
			gl, wl := lines(or.Err), lines(pr.Err)
			detail := ""
			for x := 0; x < len(wl) || x < len(gl); x++ {
				a, b := "<missing>", "<missing>"
				if x < len(wl) {
					a = wl[x]
				}
				if x < len(gl) {
					b = gl[x]
				}
				if a != b {
					detail = fmt.Sprintf("line %d: regular %q garbled %q", x, clip([]byte(a), 200), clip([]byte(b), 200))
					break
				}
			}
			key := "e2e/value"
			if strings.Contains(detail, "\"X ") {
				key = "e2e/ldflags-X"
			}
			c.Violate(key, fmt.Sprintf("garble %v: literal program prints different values (rc %d vs %d): %s", cfg.GFlags, or.RC, pr.RC, detail), files())
		}
	})
}
