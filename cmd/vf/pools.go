package main

import (
	"fmt"
	"os"
	"path/filepath"
	"sort"
	"strings"
	"sync"
	"sync/atomic"
	"time"
)

// ---------------------------------------------------------------------------
// Building garble from /repo's current working tree.

type GarbleBin struct {
	Path string
	ID   string // first 16 hex of the binary's sha256
	Tags string
}

var garbleBins sync.Map // key -> *GarbleBin

// buildGarble builds /repo with the verif hook tag (plus extra tags) and returns
// an immutable copy of the binary named after its content hash.
func buildGarble(extraTags string, race bool) *GarbleBin {
	tags := strings.TrimSpace("verif " + extraTags)
	key := strings.ReplaceAll(tags, " ", "+")
	if race {
		key += "+race"
	}
	if v, ok := garbleBins.Load(key); ok {
		return v.(*GarbleBin)
	}
	var gb *GarbleBin
	binDir := filepath.Join(workDir, "bin")
	withLock(filepath.Join(binDir, "lock-"+key), func() {
		tmp := filepath.Join(binDir, "build-"+key)
		argv := []string{"go", "build", "-tags", tags, "-o", tmp}
		if race {
			argv = append(argv, "-race")
		}
		argv = append(argv, ".")
		env := baseEnv()
		if race {
			env = append(env, "CGO_ENABLED=1")
		}
		r := Run(Cmd{Dir: repoRoot, Env: env, Argv: argv, Timeout: 15 * time.Minute})
		if !r.OK() {
			fatalf("building garble (%s) from %s failed:\n%s", key, repoRoot, r)
		}
		id := fileSha(tmp)[:16]
		final := filepath.Join(binDir, "garble-"+key+"-"+id)
		if !exists(final) {
			// Keep the file name "garble..." but make it immutable per content.
			data, err := os.ReadFile(tmp)
			must(err)
			must(os.WriteFile(final+".tmp", data, 0o755))
			must(os.Rename(final+".tmp", final))
		}
		gb = &GarbleBin{Path: final, ID: id, Tags: tags}
		// Garbage-collect old binaries of this key (keep the 3 newest).
		ents, _ := filepath.Glob(filepath.Join(binDir, "garble-"+key+"-*"))
		if len(ents) > 3 {
			sort.Slice(ents, func(i, j int) bool { return mtime(ents[i]).After(mtime(ents[j])) })
			for _, e := range ents[3:] {
				// Other vf processes (evaluating other trees) may still be using older binaries.
				if e != final && time.Since(mtime(e)) > 6*time.Hour {
					os.Remove(e)
				}
			}
		}
		now := time.Now()
		os.Chtimes(final, now, now)
	})
	garbleBins.Store(key, gb)
	return gb
}

func mtime(p string) time.Time {
	st, err := os.Stat(p)
	if err != nil {
		return time.Time{}
	}
	return st.ModTime()
}

// ---------------------------------------------------------------------------
// Configurations.

const (
	seedA = "QUFBQUFBQUE" // 8 bytes "AAAAAAAA"
	seedB = "Z2FyYmxlMTI" // 8 bytes "garble12"
)

type Config struct {
	Name   string
	GFlags []string // garble flags (before the command)
	Env    []string // extra environment (GOGARBLE, controlflow)
	BFlags []string // go build flags (after the command)
}

func (c Config) Key() string {
	return c.Name + "{" + strings.Join(c.GFlags, " ") + "|" + strings.Join(c.Env, " ") + "|" + strings.Join(c.BFlags, " ") + "}"
}

func (c Config) fileKey() string { return sha256hex([]byte(c.Key()))[:12] }

func (c Config) with(name string, gflags []string, env []string, bflags []string) Config {
	n := Config{Name: name}
	n.GFlags = append(append([]string{}, c.GFlags...), gflags...)
	n.Env = append(append([]string{}, c.Env...), env...)
	n.BFlags = append(append([]string{}, c.BFlags...), bflags...)
	return n
}

func (c Config) has(flag string) bool {
	for _, f := range c.GFlags {
		if f == flag || strings.HasPrefix(f, flag+"=") {
			return true
		}
	}
	return false
}

var (
	K0 = Config{Name: "K0"}
	K1 = Config{Name: "K1", GFlags: []string{"-tiny"}}
	K2 = Config{Name: "K2", GFlags: []string{"-literals"}}
	K3 = Config{Name: "K3", GFlags: []string{"-seed=" + seedA}}
	K4 = Config{Name: "K4", GFlags: []string{"-seed=" + seedB}}
	K5 = Config{Name: "K5", GFlags: []string{"-literals", "-tiny", "-seed=" + seedA}}
	K8 = Config{Name: "K8", GFlags: []string{"-seed=" + seedA}, Env: []string{"GARBLE_EXPERIMENTAL_CONTROLFLOW=1"}}
	K9 = Config{Name: "K9", GFlags: []string{"-literals", "-seed=" + seedA}, Env: []string{"GARBLE_EXPERIMENTAL_CONTROLFLOW=1"}}
	// K23: -literals with a seed (no -tiny) so positions stay reversible.
	K23 = Config{Name: "K23", GFlags: []string{"-literals", "-seed=" + seedA}}
)

// ---------------------------------------------------------------------------
// Boxes: the directories one garble invocation sees.

type Box struct {
	GoCache, GarbleCache, Tmp, ModCache string
}

func (b *Box) Env(extra ...string) []string {
	return baseEnv(append([]string{
		"GOCACHE=" + b.GoCache,
		"GARBLE_CACHE=" + b.GarbleCache,
		"TMPDIR=" + b.Tmp,
		"GOMODCACHE=" + b.ModCache,
	}, extra...)...)
}

// plainEnv is for the regular toolchain (reference builds).
func plainEnv(extra ...string) []string {
	return baseEnv(append([]string{
		"GOCACHE=" + filepath.Join(workDir, "plain-gocache"),
		"GOMODCACHE=" + emptyModCache(),
	}, extra...)...)
}

var emptyModCache = sync.OnceValue(func() string {
	d := filepath.Join(workDir, "empty-modcache")
	must(os.MkdirAll(d, 0o755))
	return d
})

// garbleArgv assembles: garble <gflags> <command> <bflags> <args>.
func garbleArgv(g *GarbleBin, cfg Config, command string, args ...string) []string {
	argv := []string{g.Path}
	argv = append(argv, cfg.GFlags...)
	argv = append(argv, command)
	argv = append(argv, cfg.BFlags...)
	argv = append(argv, args...)
	return argv
}

func (b *Box) Garble(g *GarbleBin, cfg Config, dir string, timeout time.Duration, extraEnv []string, command string, args ...string) Res {
	env := b.Env(append(append([]string{}, cfg.Env...), extraEnv...)...)
	return Run(Cmd{Dir: dir, Env: env, Argv: garbleArgv(g, cfg, command, args...), Timeout: timeout})
}

// ---------------------------------------------------------------------------
// Scratch space for one vf process.

var (
	scratchRoot string
	scratchSeq  atomic.Int64
)

func initScratch() {
	scratchRoot = filepath.Join(workDir, "run", fmt.Sprintf("%d-%d", os.Getpid(), time.Now().UnixNano()%1e9))
	must(os.MkdirAll(scratchRoot, 0o755))
	// Remove scratch of dead processes.
	ents, _ := os.ReadDir(filepath.Join(workDir, "run"))
	for _, e := range ents {
		var pid int
		fmt.Sscanf(e.Name(), "%d-", &pid)
		if pid > 0 && pid != os.Getpid() && !exists(fmt.Sprintf("/proc/%d", pid)) {
			chmodAndRemove(filepath.Join(workDir, "run", e.Name()))
		}
	}
}

func chmodAndRemove(dir string) {
	if os.RemoveAll(dir) != nil {
		Run(Cmd{Argv: []string{"chmod", "-R", "u+rwx", dir}})
		os.RemoveAll(dir)
	}
}

func cleanupScratch() {
	if scratchRoot != "" && os.Getenv("VERIF_KEEP") == "" {
		chmodAndRemove(scratchRoot)
	}
}

func scratch(label string) string {
	d := filepath.Join(scratchRoot, fmt.Sprintf("%s-%d", label, scratchSeq.Add(1)))
	must(os.MkdirAll(d, 0o755))
	return d
}

// ---------------------------------------------------------------------------
// Pools.

// warmProgram imports the std closure used by generated programs, so that after
// one build of it every generated program only rebuilds its own packages.
var warmProgram = map[string]string{
	"go.mod": "module vfwarm.example/warm\n\ngo 1.26\n",
	"main.go": `package main

import (
	"bufio"
	"bytes"
	"encoding/base64"
	"encoding/hex"
	"encoding/json"
	"errors"
	"fmt"
	"io"
	"maps"
	"math"
	"os"
	"reflect"
	"runtime"
	"runtime/debug"
	"slices"
	"sort"
	"strconv"
	"strings"
	"sync"
	"sync/atomic"
	"time"
	"unicode/utf8"
	"unsafe"
)

type warmT struct{ A int }

func main() {
	var mu sync.Mutex
	mu.Lock()
	var n atomic.Int64
	n.Add(1)
	b, _ := json.Marshal(warmT{1})
	w := bufio.NewWriter(os.Stdout)
	fmt.Fprintln(w, string(b), reflect.TypeOf(warmT{}).Name(), strings.ToUpper("x"), strconv.Itoa(3), errors.New("e"),
		time.Duration(1), bytes.NewBuffer(nil).Len(), runtime.NumGoroutine(), hex.EncodeToString([]byte("a")),
		base64.StdEncoding.EncodeToString([]byte("a")), math.Sqrt(4), utf8.RuneLen('x'), unsafe.Sizeof(n),
		slices.Max([]int{1, 2}), len(maps.Clone(map[int]int{})), io.EOF)
	w.Flush()
	sort.Ints(nil)
	debug.SetGCPercent(100)
}
`,
	"main_test.go": `package main

import "testing"

func TestWarm(t *testing.T) {}
`,
}

type Pool struct {
	Dir     string
	GoCache string
	GCache  string
}

func baseDir() string {
	return filepath.Join(workDir, "pools", "base-"+filepath.Base(toolchainRoot()))
}

// ensureBase makes sure the plain std export data (and, when already known, a
// patched linker) exist.
func ensureBase() string {
	dir := baseDir()
	withLock(dir+".lock", func() {
		if exists(filepath.Join(dir, "ok")) {
			return
		}
		os.RemoveAll(dir)
		must(os.MkdirAll(filepath.Join(dir, "gocache"), 0o755))
		must(os.MkdirAll(filepath.Join(dir, "garblecache"), 0o755))
		src := scratch("warmsrc")
		writeTree(src, warmProgram)
		env := baseEnv("GOCACHE="+filepath.Join(dir, "gocache"), "GOMODCACHE="+emptyModCache())
		for _, argv := range [][]string{
			{"go", "build", "-trimpath", "-o", os.DevNull, "."},
			{"go", "test", "-trimpath", "-c", "-o", os.DevNull, "."},
			{"go", "list", "-export", "-deps", "-trimpath", "-test", "."},
			// `go tool buildid` is built on demand since Go 1.25; garble runs it on every build.
			{"go", "tool", "buildid", filepath.Join(toolchainRoot(), "bin", "go")},
		} {
			r := Run(Cmd{Dir: src, Env: env, Argv: argv, Timeout: 20 * time.Minute})
			if !r.OK() {
				fatalf("base pool: %v failed:\n%s", argv, r)
			}
		}
		must(os.WriteFile(filepath.Join(dir, "ok"), nil, 0o644))
	})
	return dir
}

// newColdBox returns private caches seeded from the base pool ("garble-cold").
// withLinker=false additionally removes the patched linker ("linker-less").
func newColdBox(label string, withLinker bool) *Box {
	base := ensureBase()
	d := scratch(label)
	must(copyTree(filepath.Join(base, "gocache"), filepath.Join(d, "gocache")))
	must(copyTree(filepath.Join(base, "garblecache"), filepath.Join(d, "garblecache")))
	if !withLinker {
		os.RemoveAll(filepath.Join(d, "garblecache", "tool"))
	}
	must(os.MkdirAll(filepath.Join(d, "tmp"), 0o755))
	return &Box{GoCache: filepath.Join(d, "gocache"), GarbleCache: filepath.Join(d, "garblecache"), Tmp: filepath.Join(d, "tmp"), ModCache: emptyModCache()}
}

// newEmptyBox returns completely empty caches ("fully cold").
func newEmptyBox(label string) *Box {
	d := scratch(label)
	for _, s := range []string{"gocache", "garblecache", "tmp"} {
		must(os.MkdirAll(filepath.Join(d, s), 0o755))
	}
	return &Box{GoCache: filepath.Join(d, "gocache"), GarbleCache: filepath.Join(d, "garblecache"), Tmp: filepath.Join(d, "tmp"), ModCache: emptyModCache()}
}

// cloneBox copies both caches of b into a fresh private box.
func cloneBox(b *Box, label string) *Box {
	d := scratch(label)
	must(copyTree(b.GoCache, filepath.Join(d, "gocache")))
	must(copyTree(b.GarbleCache, filepath.Join(d, "garblecache")))
	must(os.MkdirAll(filepath.Join(d, "tmp"), 0o755))
	return &Box{GoCache: filepath.Join(d, "gocache"), GarbleCache: filepath.Join(d, "garblecache"), Tmp: filepath.Join(d, "tmp"), ModCache: emptyModCache()}
}

// linkCloneBox returns a private view of a pool made of hard links: builds in it see the warm std
// closure but none of the user packages other builds of the run compiled, so every user package is
// really obfuscated again (complete name maps). Go's cache never rewrites a data file with other
// content (files are named by content hash), so sharing inodes with the pool is safe.
func linkCloneBox(p *Pool, label string) *Box {
	d := scratch(label)
	for _, pair := range [][2]string{{p.GoCache, "gocache"}, {p.GCache, "garblecache"}} {
		for attempt := 0; ; attempt++ {
			dst := filepath.Join(d, pair[1])
			r := Run(Cmd{Argv: []string{"cp", "-al", pair[0], dst}, Timeout: 10 * time.Minute})
			if r.OK() {
				break
			}
			// a file of the shared pool vanished while copying (another run renamed a temp file): retry
			os.RemoveAll(dst)
			if attempt == 3 {
				panic("cp -al " + pair[0] + ": " + r.String())
			}
		}
	}
	must(os.MkdirAll(filepath.Join(d, "tmp"), 0o755))
	return &Box{GoCache: filepath.Join(d, "gocache"), GarbleCache: filepath.Join(d, "garblecache"), Tmp: filepath.Join(d, "tmp"), ModCache: emptyModCache()}
}

func baseHasLinker() bool {
	return exists(filepath.Join(baseDir(), "garblecache", "tool", "link.version"))
}

// saveLinkerToBase copies a freshly built patched linker into the base pool so
// later cold boxes need not rebuild it (it depends on the Go toolchain and the
// linker patches only; garble re-checks the stamp itself).
func saveLinkerToBase(garbleCache string) {
	base := ensureBase()
	withLock(base+".lock", func() {
		src := filepath.Join(garbleCache, "tool")
		dst := filepath.Join(base, "garblecache", "tool")
		srcVer, err := os.ReadFile(filepath.Join(src, "link.version"))
		if err != nil {
			return
		}
		if dstVer, err := os.ReadFile(filepath.Join(dst, "link.version")); err == nil && string(dstVer) == string(srcVer) {
			return // already the linker the current garble accepts
		}
		os.RemoveAll(dst)
		must(os.MkdirAll(dst, 0o755))
		for _, f := range []string{"link", "link.version"} {
			data, err := os.ReadFile(filepath.Join(src, f))
			must(err)
			must(os.WriteFile(filepath.Join(dst, f), data, 0o755))
		}
	})
}

// warmPool returns the shared pool for garble binary g, with the std closure
// already built under every given config. Shared by all cases of a run
// (GOCACHE and GARBLE_CACHE are designed for concurrent use).
func warmPool(g *GarbleBin, withTest bool, cfgs ...Config) *Pool {
	base := ensureBase()
	poolsDir := filepath.Join(workDir, "pools")
	dir := filepath.Join(poolsDir, "g-"+g.ID)
	p := &Pool{Dir: dir, GoCache: filepath.Join(dir, "gocache"), GCache: filepath.Join(dir, "garblecache")}
	withLock(filepath.Join(poolsDir, "gc.lock"), func() {
		if !exists(filepath.Join(dir, "seeded")) {
			os.RemoveAll(dir)
			must(os.MkdirAll(dir, 0o755))
			must(copyTree(filepath.Join(base, "gocache"), p.GoCache))
			must(copyTree(filepath.Join(base, "garblecache"), p.GCache))
			must(os.WriteFile(filepath.Join(dir, "seeded"), nil, 0o644))
		}
		now := time.Now()
		os.Chtimes(dir, now, now)
		// Keep at most 3 pools (mutated trees create new garble IDs).
		ents, _ := filepath.Glob(filepath.Join(poolsDir, "g-*"))
		if len(ents) > 3 {
			sort.Slice(ents, func(i, j int) bool { return mtime(ents[i]).After(mtime(ents[j])) })
			for _, e := range ents[3:] {
				if e != dir && time.Since(mtime(e)) > 6*time.Hour {
					chmodAndRemove(e)
				}
			}
		}
	})
	var wg sync.WaitGroup
	sem := make(chan struct{}, 4) // cold builds are latency-bound: 4 in parallel are free
	for _, cfg := range cfgs {
		wg.Add(1)
		go func(cfg Config) {
			defer wg.Done()
			sem <- struct{}{}
			defer func() { <-sem }()
			p.ensureWarm(g, cfg, withTest)
		}(cfg)
	}
	wg.Wait()
	return p
}

func (p *Pool) ensureWarm(g *GarbleBin, cfg Config, withTest bool) {
	marker := filepath.Join(p.Dir, "warm-"+cfg.fileKey())
	if withTest {
		marker += "-test"
	}
	withLock(marker+".lock", func() {
		if exists(marker) {
			return
		}
		src := scratch("warmsrc")
		writeTree(src, warmProgram)
		box := p.Box(scratch("warmtmp"))
		// Strip package-specific settings that don't apply to the warm program.
		wcfg := cfg
		wcfg.BFlags = nil
		var r Res
		if withTest {
			r = box.Garble(g, wcfg, src, 30*time.Minute, nil, "test", "-c", "-o", os.DevNull, ".")
		} else {
			r = box.Garble(g, wcfg, src, 30*time.Minute, nil, "build", "-o", os.DevNull, ".")
		}
		if !r.OK() {
			// Not fatal: the cases themselves will show what is wrong; but say so.
			fmt.Fprintf(os.Stderr, "WARN: warming pool for %s failed:\n%s\n", cfg.Key(), r)
			return
		}
		saveLinkerToBase(p.GCache)
		must(os.WriteFile(marker, []byte(cfg.Key()), 0o644))
	})
}

// Box returns a box on the shared caches of the pool with a private TMPDIR.
func (p *Pool) Box(tmp string) *Box {
	must(os.MkdirAll(tmp, 0o755))
	return &Box{GoCache: p.GoCache, GarbleCache: p.GCache, Tmp: tmp, ModCache: emptyModCache()}
}
