package main

import (
	"bytes"
	"fmt"
	"os"
	"path/filepath"
	"regexp"
	"sort"
	"strings"
	"time"
)

// ---------------------------------------------------------------------------
// Helpers shared by the program-level checks: writing a generated program,
// building it with the regular toolchain and with garble, running binaries.

type Work struct {
	Prog *Prog
	Dir  string // module root on disk
	Root string // scratch root of this case
}

// materialize writes p below a fresh directory with a random-looking absolute path.
func materialize(p *Prog, label string) *Work {
	root := scratch(label)
	dir := filepath.Join(root, "zqsrcroot"+label, "zqmoddir")
	must(os.MkdirAll(dir, 0o755))
	writeTree(dir, p.Files)
	return &Work{Prog: p, Dir: dir, Root: root}
}

func (w *Work) cleanup() { chmodAndRemove(w.Root) }

// plainBuild builds the main package with the regular toolchain.
func (w *Work) plainBuild(out string, stripped bool, extraFlags ...string) Res {
	argv := []string{"go", "build", "-trimpath"}
	ld := ""
	if stripped {
		ld = "-s -w"
	}
	for _, x := range w.Prog.LdX {
		ld += " -X=" + x
	}
	if strings.TrimSpace(ld) != "" {
		argv = append(argv, "-ldflags="+strings.TrimSpace(ld))
	}
	argv = append(argv, extraFlags...)
	argv = append(argv, "-o", out, ".")
	return Run(Cmd{Dir: w.Dir, Env: plainEnv(), Argv: argv, Timeout: 10 * time.Minute})
}

// garbleBuild builds the main package with garble under cfg in box.
func (w *Work) garbleBuild(g *GarbleBin, box *Box, cfg Config, out string, extraEnv []string, extraFlags ...string) Res {
	var args []string
	if ld := w.Prog.ldflags(); ld != "" {
		args = append(args, ld)
	}
	args = append(args, extraFlags...)
	args = append(args, "-o", out, ".")
	return box.Garble(g, cfg, w.Dir, 15*time.Minute, extraEnv, "build", args...)
}

// runBin runs a built program with a clean environment.
func runBin(bin string, args []string, env []string, timeout time.Duration) Res {
	if timeout == 0 {
		timeout = 60 * time.Second
	}
	e := []string{"PATH=/usr/bin:/bin", "HOME=/nonexistent", "LANG=C"}
	e = append(e, env...)
	return Run(Cmd{Dir: filepath.Dir(bin), Env: e, Argv: append([]string{bin}, args...), Timeout: timeout, FileIO: true})
}

var argvSets = [][]string{
	{},
	{"a"},
	{"a", "b", "c"},
	{"x", "y"},
	{"1", "2", "3", "4", "5"},
	{"-flaglike", "--", "z"},
}

// replayFiles renders a program and observations for a violation witness.
func (w *Work) replayFiles(extra map[string]string) map[string]string {
	files := map[string]string{}
	for name, content := range w.Prog.Files {
		files["src/"+name] = content
	}
	files["features.txt"] = strings.Join(w.Prog.Features, "\n") + "\n"
	files["ldflagsX.txt"] = strings.Join(w.Prog.LdX, "\n") + "\n"
	for k, v := range extra {
		files[k] = v
	}
	return files
}

var rxTestTiming = regexp.MustCompile(`\s*\(?\d+\.\d+s\)?`)
var rxTestCached = regexp.MustCompile(`\s*\(cached\)`)

// testVerdicts reduces `go test -v` output to its verdict lines, timings stripped.
func testVerdicts(out []byte) []string {
	var v []string
	for _, l := range lines(out) {
		t := strings.TrimSpace(l)
		switch {
		case strings.HasPrefix(t, "--- "), strings.HasPrefix(t, "=== RUN"), strings.HasPrefix(t, "ok "), strings.HasPrefix(t, "FAIL"),
			strings.HasPrefix(t, "PASS"), strings.HasPrefix(t, "? "), strings.HasPrefix(t, "testmain-"):
			t = rxTestTiming.ReplaceAllString(t, "")
			t = rxTestCached.ReplaceAllString(t, "")
			v = append(v, strings.Join(strings.Fields(t), " "))
		}
	}
	sort.Strings(v)
	return v
}

// markersIn returns which of the markers occur in data.
func markersIn(data []byte, ms []Marker) map[string]bool {
	out := map[string]bool{}
	for _, m := range ms {
		if bytes.Contains(data, []byte(m.Name)) {
			out[m.Name] = true
		}
	}
	return out
}

func describeRun(what string, args []string, r Res) string {
	return fmt.Sprintf("%s args=%q rc=%d timedout=%v\nstdout:\n%s\nstderr:\n%s\n", what, args, r.RC, r.TimedOut, clip(r.Out, 3000), clip(r.Err, 3000))
}
