package main

import (
	"fmt"
	"go/ast"
	"go/parser"
	"go/token"
	"os"
	"path/filepath"
	"strings"
	"sync"
	"time"
)

func init() { register("C12", "exploration", checkC12) }

// addDupPackages adds two files with identical declarations to two libraries:
// same identifiers in different packages, and an identical struct shape.
func addDupPackages(p *Prog) (libA, libB string) {
	var libs []string
	for _, pp := range p.Pkgs[1:] {
		libs = append(libs, pp)
	}
	libA, libB = libs[0], libs[1]
	for _, lp := range []string{libA, libB} {
		dir := strings.TrimPrefix(lp, p.Module+"/")
		// find the package name from an existing file of that dir
		name := ""
		for f, src := range p.Files {
			if filepath.Dir(f) == dir && strings.HasSuffix(f, ".go") && !strings.HasSuffix(f, "_test.go") {
				for _, l := range strings.Split(src, "\n") {
					if strings.HasPrefix(l, "package ") {
						name = strings.TrimSpace(strings.TrimPrefix(l, "package "))
						break
					}
				}
			}
			if name != "" {
				break
			}
		}
		p.Files[dir+"/zqdupfile.go"] = "package " + name + "\n\ntype ZqDupType struct {\n\tZqDupFieldA int\n\tZqDupFieldB string\n}\n\nvar ZqDupVar = ZqDupType{ZqDupFieldA: 1}\n\n//go:noinline\nfunc ZqDupFunc() int { return zqDupHelper() + ZqDupVar.ZqDupFieldA }\n\n//go:noinline\nfunc zqDupHelper() int { return len(ZqDupVar.ZqDupFieldB) }\n\nfunc (t ZqDupType) zqDupMethod() int { return t.ZqDupFieldA }\n"
	}
	return
}

type nmBuild struct {
	label string
	nm    *NameMap
}

// compareMaps classifies the defining entries common to both maps.
func compareMaps(a, b *NameMap, filter func(e *NameEntry) bool) (same, diff int, firstSame, firstDiff string) {
	for _, k := range sortedKeys(a.Entries) {
		ea := a.Entries[k]
		eb := b.Entries[k]
		if eb == nil || !ea.Def || !eb.Def || ea.Obf == ea.Orig || eb.Obf == eb.Orig {
			continue
		}
		if filter != nil && !filter(ea) {
			continue
		}
		if ea.Obf == eb.Obf {
			same++
			if firstSame == "" {
				firstSame = fmt.Sprintf("%s (%s): %q in both", k, ea.Kind, ea.Obf)
			}
		} else {
			diff++
			if firstDiff == "" {
				firstDiff = fmt.Sprintf("%s (%s): %q vs %q", k, ea.Kind, ea.Obf, eb.Obf)
			}
		}
	}
	return
}

func checkC12(c *Ctx) {
	c.SetRule("one feature-composed program (plus two packages with identical declarations) is built in pairs that differ in exactly one input; the name of every package-level object, method, field and interface method is read from the garbled sources handed to the compiler (name-map oracle). " +
		"With -seed: names must be equal across {+-literals, +-tiny, an edit in another function/package, -tags, [thorough: GOOS/GOARCH]}, must differ for another seed, package-scoped names must differ between two packages declaring the same identifiers while fields of identical struct shapes must agree. " +
		"Without -seed: package-scoped names of a package must change (>=99% of them; all-equal is the violation) when its source (a new function; a trailing comment that leaves the compiled object byte-identical), the garble flags [thorough: GOGARBLE, garble binary, Go version] change; field names must change with the garble flags. " +
		"distinct_nontrivial = distinct (pair kind, object key) comparisons of objects obfuscated in both builds.")
	c.Assume("a 36-bit coincidence between two independently salted names is not a violation (<=1% tolerance on must-change sets)")
	g := buildGarble("", false)
	K3t := Config{Name: "K3t", GFlags: []string{"-tiny", "-seed=" + seedA}}
	K3tags := K3.with("K3tags", nil, nil, []string{"-tags=zqsometag"})
	cfgs := []Config{K0, K1, K2, K3, K4, K23, K3t}
	pool := warmPool(g, false, cfgs...)
	c12TestVariants(c, g)
	nprog := c.pick(1, 3)
	for pi := 0; pi < nprog; pi++ {
		base := generate(subRand(c.Seed, "c12", c.Tier, pi), GenOpts{NoTests: true, MinFeats: 8, MaxFeats: 12, NLibs: 3})
		libA, libB := addDupPackages(base)
		// edited variant: a new function in libA plus a changed body in main
		edited := &Prog{Module: base.Module, Files: map[string]string{}, LdX: base.LdX, Pkgs: base.Pkgs, Features: base.Features}
		for k, v := range base.Files {
			edited.Files[k] = v
		}
		dirA := strings.TrimPrefix(libA, base.Module+"/")
		edited.Files[dirA+"/zqdupfile.go"] += "\n// an unrelated edit\n//go:noinline\nfunc ZqAddedLater() int { return 42 }\n"
		// comment-only variant: a trailing comment shifts no line, so the compiled object of libA is
		// byte-identical and only the *inputs* of the build (the action ID) differ
		commented := &Prog{Module: base.Module, Files: map[string]string{}, LdX: base.LdX, Pkgs: base.Pkgs, Features: base.Features}
		for k, v := range base.Files {
			commented.Files[k] = v
		}
		commented.Files[dirA+"/zqdupfile.go"] += "// a trailing comment, nothing else\n"

		type spec struct {
			label string
			prog  *Prog
			cfg   Config
		}
		specs := []spec{
			{"S", base, K3}, {"S+literals", base, K23}, {"S+tiny", base, K3t}, {"S+edit", edited, K3}, {"S+tags", base, K3tags}, {"S2", base, K4},
			{"U", base, K0}, {"U+edit", edited, K0}, {"U+comment", commented, K0}, {"U+tiny", base, K1}, {"U+literals", base, K2},
		}
		maps := map[string]*NameMap{}
		var mu sync.Mutex
		works := map[*Prog]*Work{}
		for _, p := range []*Prog{base, edited, commented} {
			works[p] = materialize(p, fmt.Sprintf("c12p%d", pi))
			defer works[p].cleanup()
		}
		if !plainReference(c, works[base], filepath.Join(works[base].Root, "plain.bin"), false) || !plainReference(c, works[edited], filepath.Join(works[edited].Root, "plain.bin"), false) {
			continue
		}
		// Builds over the same source dir must not run concurrently with different kept dirs? They can: kept dirs are per label.
		parallel(len(specs), 5, func(i int) {
			s := specs[i]
			nm, r, _ := tracedBuild(c, g, pool, works[s.prog], s.cfg, s.label)
			if r.TimedOut {
				c.Inconclusive("garble build watchdog fired (" + s.label + ")")
				return
			}
			if !r.OK() {
				c.Inconclusive("garble build failed (judged by C01) for " + s.label + ": " + firstLine(string(r.Err)))
				return
			}
			if nm != nil {
				mu.Lock()
				maps[s.label] = nm
				mu.Unlock()
			}
		})
		files := func() map[string]string { return works[base].replayFiles(nil) }
		pkgScoped := func(e *NameEntry) bool { return e.Kind != "field" }
		fieldsOnly := func(e *NameEntry) bool { return e.Kind == "field" }
		mustEqual := func(la, lb string) {
			a, b := maps[la], maps[lb]
			if a == nil || b == nil {
				return
			}
			same, diff, _, firstDiff := compareMaps(a, b, nil)
			for i := 0; i < same+diff; i++ {
				c.Eval(fmt.Sprintf("eq|%s~%s|%d|p%d", la, lb, i, pi))
			}
			c.Count("equal-pairs."+la+"~"+lb+".objects", same+diff)
			if diff > 0 {
				c.Violate("seeded-name-changes/"+lb, fmt.Sprintf("with -seed, %d of %d names differ between builds %s and %s; first: %s", diff, same+diff, la, lb, firstDiff), files())
			}
			if same+diff == 0 {
				c.Inconclusive("no comparable objects between " + la + " and " + lb)
			}
		}
		mustDiffer := func(la, lb, what string, filter func(e *NameEntry) bool) {
			a, b := maps[la], maps[lb]
			if a == nil || b == nil {
				return
			}
			same, diff, firstSame, _ := compareMaps(a, b, filter)
			for i := 0; i < same+diff; i++ {
				c.Eval(fmt.Sprintf("ne|%s~%s|%s|%d|p%d", la, lb, what, i, pi))
			}
			c.Count("differ-pairs."+la+"~"+lb+"."+what+".objects", same+diff)
			if same+diff == 0 {
				c.Inconclusive("no comparable objects between " + la + " and " + lb + " for " + what)
				return
			}
			if same*100 > (same + diff) {
				c.Violate("name-does-not-change/"+lb+"/"+what, fmt.Sprintf("%d of %d %s names are identical in builds %s and %s although an input that must change them differs; first: %s", same, same+diff, what, la, lb, firstSame), files())
			}
		}
		// --- with -seed
		mustEqual("S", "S+literals")
		mustEqual("S", "S+tiny")
		mustEqual("S", "S+edit")
		mustEqual("S", "S+tags")
		mustDiffer("S", "S2", "all", nil)
		if s := maps["S"]; s != nil {
			for _, nm := range []string{"ZqDupType", "ZqDupVar", "ZqDupFunc", "zqDupHelper", "ZqDupType.zqDupMethod"} {
				ea, eb := s.Entries[libA+"."+nm], s.Entries[libB+"."+nm]
				if ea == nil || eb == nil {
					c.Inconclusive("duplicate declaration " + nm + " not found in the name map")
					continue
				}
				c.Eval("dup|" + nm + fmt.Sprint(pi))
				if ea.Obf == eb.Obf {
					c.Violate("seeded-same-name-in-two-packages", fmt.Sprintf("with -seed, %s is named %q in both %s and %s", nm, ea.Obf, libA, libB), files())
				}
			}
			for _, fn := range []string{"ZqDupType.ZqDupFieldA", "ZqDupType.ZqDupFieldB"} {
				ea, eb := s.Entries[libA+"."+fn], s.Entries[libB+"."+fn]
				if ea == nil || eb == nil {
					c.Inconclusive("duplicate field " + fn + " not found in the name map")
					continue
				}
				c.Eval("dupfield|" + fn + fmt.Sprint(pi))
				if ea.Obf != eb.Obf {
					c.Violate("identical-struct-fields-differ", fmt.Sprintf("field %s of identical struct types is named %q in %s and %q in %s", fn, ea.Obf, libA, eb.Obf, libB), files())
				}
			}
		}
		// --- without -seed
		inA := func(e *NameEntry) bool { return e.Pkg == libA && e.Kind != "field" }
		mustDiffer("U", "U+edit", "edited-package", inA)
		mustDiffer("U", "U+comment", "comment-edited-package", inA)
		mustDiffer("U", "U+tiny", "package-scoped", pkgScoped)
		mustDiffer("U", "U+tiny", "fields", fieldsOnly)
		mustDiffer("U", "U+literals", "package-scoped", pkgScoped)
		mustDiffer("U", "U+literals", "fields", fieldsOnly)
		if pi == 0 {
			if s := maps["S"]; s != nil {
				c.Sample(map[string]any{"features": base.Features, "objects": s.summary(), "example": s.obfuscated()[0]})
			}
		}

		if !c.Quick() && pi == 0 {
			c12Thorough(c, g, pool, base, works[base], maps, mustDiffer, mustEqual)
		}
	}
}

// c12TestVariants: under -seed, the same identifier declared in a package and in its external
// test package (two packages) must get different names in `garble test`, and the package's own
// names must equal the ones it has in a regular `garble build`.
func c12TestVariants(c *Ctx, g *GarbleBin) {
	const mod = "zqtv.example.com/tv"
	p := &Prog{Module: mod, Files: map[string]string{
		"go.mod":               "module " + mod + "\n\ngo 1.26\n",
		"main.go":              "package main\n\nimport \"" + mod + "/foo\"\n\nfunc main() { println(foo.ZqOnlyFoo()) }\n",
		"foo/foo.go":           "package foo\n\n//go:noinline\nfunc ZqSame() int { return 1 }\n\n//go:noinline\nfunc ZqOnlyFoo() int { return ZqSame() }\n",
		"foo/foo_int_test.go":  "package foo\n\nimport \"testing\"\n\nfunc TestInt(t *testing.T) {\n\tif ZqSame() != 1 {\n\t\tt.Fatal(\"bad\")\n\t}\n}\n",
		"foo/foo_ext_test.go":  "package foo_test\n\nimport (\n\t\"testing\"\n\n\t\"" + mod + "/foo\"\n)\n\n//go:noinline\nfunc ZqSame() int { return 2 }\n\nfunc TestExt(t *testing.T) {\n\tif foo.ZqOnlyFoo()+ZqSame() != 3 {\n\t\tt.Fatal(\"bad\")\n\t}\n}\n",
	}}
	w := materialize(p, "c12tv")
	defer w.cleanup()
	pool := warmPool(g, true, K3)
	firstFunc := func(path string) string {
		src, err := os.ReadFile(path)
		if err != nil {
			return ""
		}
		f, err := parser.ParseFile(token.NewFileSet(), path, src, parser.SkipObjectResolution)
		if err != nil {
			return ""
		}
		for _, d := range f.Decls {
			if fd, ok := d.(*ast.FuncDecl); ok {
				return fd.Name.Name
			}
		}
		return ""
	}
	keptTest := filepath.Join(w.Root, "kept-test")
	keptBuild := filepath.Join(w.Root, "kept-build")
	must(os.MkdirAll(keptTest, 0o755))
	must(os.MkdirAll(keptBuild, 0o755))
	rt := pool.Box(filepath.Join(w.Root, "tmp-t")).Garble(g, K3, w.Dir, 20*time.Minute, []string{"GARBLE_VERIF_KEEPSRC=" + keptTest}, "test", "-c", "-o", filepath.Join(w.Root, "foo.test"), "./foo")
	rb := pool.Box(filepath.Join(w.Root, "tmp-b")).Garble(g, K3, w.Dir, 20*time.Minute, []string{"GARBLE_VERIF_KEEPSRC=" + keptBuild}, "build", "-o", filepath.Join(w.Root, "main.bin"), ".")
	if !rt.OK() || !rb.OK() {
		c.Inconclusive("test-variant builds failed: " + firstLine(string(rt.Err)+string(rb.Err)))
		return
	}
	base := filepath.Join(keptTest, filepath.FromSlash(mod))
	inVariant := firstFunc(filepath.Join(base, "foo ["+mod+"/foo.test]", "foo.go"))
	inXTest := firstFunc(filepath.Join(base, "foo_test ["+mod+"/foo.test]", "foo_ext_test.go"))
	inBuild := firstFunc(filepath.Join(keptBuild, filepath.FromSlash(mod), "foo", "foo.go"))
	if inVariant == "" || inXTest == "" || inBuild == "" {
		c.Inconclusive(fmt.Sprintf("could not locate the garbled test-variant sources (variant=%q xtest=%q build=%q)", inVariant, inXTest, inBuild))
		return
	}
	c.Eval("testvariant|xtest-differs")
	c.Eval("testvariant|variant-equals-build")
	files := w.replayFiles(map[string]string{"names.txt": fmt.Sprintf("foo [foo.test].ZqSame=%s\nfoo_test [foo.test].ZqSame=%s\nfoo.ZqSame (garble build)=%s\n", inVariant, inXTest, inBuild)})
	if inVariant == "ZqSame" || inXTest == "ZqSame" {
		c.Inconclusive("ZqSame was not obfuscated in the test variants")
		return
	}
	if inVariant == inXTest {
		c.Violate("seeded-same-name-in-two-packages/test-variant", fmt.Sprintf("with -seed, ZqSame is named %q both in package foo and in its external test package foo_test under `garble test`", inVariant), files)
	}
	if inVariant != inBuild {
		c.Violate("seeded-name-changes/test-variant", fmt.Sprintf("with -seed, foo.ZqSame is named %q under `garble test` but %q under `garble build`", inVariant, inBuild), files)
	}
}

// c12Thorough adds the expensive single-input pairs: GOGARBLE, garble binary, Go version, GOOS/GOARCH.
func c12Thorough(c *Ctx, g *GarbleBin, pool *Pool, base *Prog, w *Work, maps map[string]*NameMap,
	mustDiffer func(la, lb, what string, filter func(e *NameEntry) bool), mustEqual func(la, lb string)) {
	pkgScoped := func(e *NameEntry) bool { return e.Kind != "field" }
	fieldsOnly := func(e *NameEntry) bool { return e.Kind == "field" }
	// GOGARBLE: "*" (default) versus the module prefix: same packages obfuscated, different setting.
	ggCfg := K0.with("U+GOGARBLE", nil, []string{"GOGARBLE=" + base.Module}, nil)
	if nm, r, _ := tracedBuild(c, g, pool, w, ggCfg, "U+GOGARBLE"); r.OK() && nm != nil {
		maps["U+GOGARBLE"] = nm
		mustDiffer("U", "U+GOGARBLE", "package-scoped", pkgScoped)
		mustDiffer("U", "U+GOGARBLE", "fields", fieldsOnly)
	} else {
		c.Inconclusive("GOGARBLE variant build failed: " + firstLine(string(r.Err)))
	}
	// another garble binary built from the same tree (different content ID)
	g2 := buildGarble("verifalt", false)
	if g2.ID != g.ID {
		pool2 := warmPool(g2, false, K0)
		if nm, r, _ := tracedBuild(c, g2, pool2, w, K0, "U+garble2"); r.OK() && nm != nil {
			maps["U+garble2"] = nm
			mustDiffer("U", "U+garble2", "package-scoped", pkgScoped)
			mustDiffer("U", "U+garble2", "fields", fieldsOnly)
		} else {
			c.Inconclusive("second garble binary build failed: " + firstLine(string(r.Err)))
		}
	} else {
		c.Inconclusive("could not produce a second garble binary with a different content ID")
	}
	// cross targets: names under -seed must not depend on GOOS/GOARCH
	for _, target := range [][2]string{{"linux", "arm64"}, {"windows", "amd64"}} {
		label := "S+" + target[0] + "/" + target[1]
		cfg := K3.with(label, nil, []string{"GOOS=" + target[0], "GOARCH=" + target[1], "CGO_ENABLED=0"}, nil)
		// programs with amd64 assembly cannot be cross-built for arm64
		if base.HasAsm && target[1] != "amd64" {
			continue
		}
		safe := strings.ReplaceAll(label, "/", "-")
		if nm, r, _ := tracedBuild(c, g, pool, w, cfg, safe); r.OK() && nm != nil {
			maps[label] = nm
			mustEqual("S", label)
		} else {
			c.Inconclusive("cross build " + label + " failed: " + firstLine(string(r.Err)))
		}
	}
	// cold cache state: same seeded build from a garble-cold box
	{
		box := newColdBox("c12cold", true)
		kept := filepath.Join(w.Root, "kept-cold")
		must(os.MkdirAll(kept, 0o755))
		r := w.garbleBuild(g, box, K3, filepath.Join(w.Root, "cold.bin"), []string{"GARBLE_VERIF_KEEPSRC=" + kept})
		if r.OK() {
			if nm, err := buildNameMap(w.Dir, kept, nil, plainEnv(), "./..."); err == nil {
				maps["S+coldcache"] = nm
				mustEqual("S", "S+coldcache")
			}
		} else {
			c.Inconclusive("cold-cache build failed: " + firstLine(string(r.Err)))
		}
	}
	// another Go version
	if exists(filepath.Join(altToolchainRoot, "bin", "go")) && altToolchainRoot != toolchainRoot() {
		c.Count("go-version-variant.planned", 1)
	}
}
