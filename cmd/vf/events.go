package main

import (
	"bufio"
	"encoding/json"
	"fmt"
	"os"
	"path/filepath"
	"sort"
	"time"
)

// Event is one line of the hook log written by internal/verifhook.
type Event struct {
	T    int64  `json:"t"`
	Pid  int    `json:"pid"`
	PPid int    `json:"ppid"`
	Pkg  string `json:"pkg"`
	Kind string `json:"kind"`
	F    map[string]any
}

func (e Event) Str(k string) string {
	if v, ok := e.F[k]; ok {
		return fmt.Sprint(v)
	}
	return ""
}

func (e Event) Bool(k string) bool {
	v, _ := e.F[k].(bool)
	return v
}

func (e Event) Num(k string) float64 {
	v, _ := e.F[k].(float64)
	return v
}

// readEvents loads all events below dir, ordered by the system-wide monotonic clock.
func readEvents(dir string) []Event {
	var out []Event
	files, _ := filepath.Glob(filepath.Join(dir, "*.jsonl"))
	for _, f := range files {
		fh, err := os.Open(f)
		if err != nil {
			continue
		}
		sc := bufio.NewScanner(fh)
		sc.Buffer(make([]byte, 1<<20), 1<<26)
		for sc.Scan() {
			var m map[string]any
			if json.Unmarshal(sc.Bytes(), &m) != nil {
				continue // a torn last line of a killed process
			}
			e := Event{F: m}
			if v, ok := m["t"].(float64); ok {
				e.T = int64(v)
			}
			if v, ok := m["pid"].(float64); ok {
				e.Pid = int(v)
			}
			if v, ok := m["ppid"].(float64); ok {
				e.PPid = int(v)
			}
			e.Pkg, _ = m["pkg"].(string)
			e.Kind, _ = m["kind"].(string)
			out = append(out, e)
		}
		fh.Close()
	}
	sort.SliceStable(out, func(i, j int) bool { return out[i].T < out[j].T })
	return out
}

func countKind(evs []Event, kind string) int {
	n := 0
	for _, e := range evs {
		if e.Kind == kind {
			n++
		}
	}
	return n
}

// runDriver runs an in-process driver (a _test.go kept in /verif/drivers) inside a
// package of /repo via `go test -overlay`, leaving /repo untouched.
func runDriver(pkgRel, driverFile, runPattern string, env []string, timeout time.Duration, extraTags string) Res {
	d := scratch("driver")
	target := filepath.Join(repoRoot, pkgRel, "zz_verif_driver_test.go")
	ov := map[string]any{"Replace": map[string]string{target: filepath.Join(verifRoot, "drivers", driverFile)}}
	data, _ := json.Marshal(ov)
	ovPath := filepath.Join(d, "overlay.json")
	must(os.WriteFile(ovPath, data, 0o644))
	tags := "verif"
	if extraTags != "" {
		tags += " " + extraTags
	}
	argv := []string{"go", "test", "-tags", tags, "-overlay", ovPath, "-run", runPattern, "-count=1", "-vet=off", "-timeout", "0", "./" + pkgRel}
	return Run(Cmd{Dir: repoRoot, Env: baseEnv(env...), Argv: argv, Timeout: timeout})
}
