package main

import (
	"bytes"
	"fmt"
	"path/filepath"
	"strings"
	"time"
)

func init() { register("C10", "exploration", checkC10) }

// crashProgram: argv[1] = crash kind, argv[2] = context (main|goroutine|defer|init).
// Everything the program itself writes carries an "OWN:" prefix on both streams.
const crashProgram = `package main

import (
	"errors"
	"fmt"
	"os"
	"runtime"
	"runtime/debug"
	"sync"
)

type stringer struct{ v int }

func (s stringer) String() string { return fmt.Sprintf("stringer-%d", s.v) }

type custom struct {
	A int
	B string
}

type myErr struct{ code int }

func (e *myErr) Error() string { return fmt.Sprintf("myerr-%d", e.code) }

var sink int

//go:noinline
func overflow(n int) int {
	var pad [128]int
	pad[n%128] = n
	return overflow(n+1) + pad[(n+1)%128]
}

//go:noinline
func crash(kind string) {
	switch kind {
	case "panic-string":
		panic("boom-string")
	case "panic-error":
		panic(errors.New("boom-error"))
	case "panic-stringer":
		panic(stringer{7})
	case "panic-custom":
		panic(custom{1, "x"})
	case "panic-custom-error":
		panic(&myErr{42})
	case "panic-nil":
		panic(nil)
	case "panic-int":
		panic(12345)
	case "panic-nested":
		defer func() { panic("second-panic") }()
		panic("first-panic")
	case "repanic":
		defer func() {
			r := recover()
			println("OWN: recovered then repanic", r != nil)
			panic(fmt.Sprint("re-", r))
		}()
		panic("orig")
	case "nil-deref":
		var p *custom
		sink = p.A
	case "index":
		s := []int{1, 2, 3}
		i := len(os.Args) + 5
		sink = s[i]
	case "slice-bounds":
		s := []int{1, 2, 3}
		i := len(os.Args) + 5
		sink = len(s[i:])
	case "div-zero":
		z := len(os.Args) - len(os.Args)
		sink = 10 / z
	case "type-assert":
		var v any = "str"
		sink = v.(int)
	case "type-assert-iface":
		var v any = custom{}
		_ = v.(fmt.Stringer)
	case "nil-map-write":
		var m map[string]int
		m["k"] = 1
	case "close-closed":
		c := make(chan int)
		close(c)
		close(c)
	case "close-nil":
		var c chan int
		close(c)
	case "send-closed":
		c := make(chan int, 1)
		close(c)
		c <- 1
	case "unlock-unlocked":
		var mu sync.Mutex
		mu.Unlock()
	case "stack-overflow":
		sink = overflow(0)
	case "deadlock":
		c := make(chan int)
		<-c
	case "deadlock-mutex":
		var mu sync.Mutex
		mu.Lock()
		mu.Lock()
	case "goexit-main":
		runtime.Goexit()
	case "exit-0":
		os.Exit(0)
	case "exit-3":
		os.Exit(3)
	case "exit-77":
		defer println("OWN: deferred must not run on os.Exit")
		os.Exit(77)
	case "settraceback-all":
		debug.SetTraceback("all")
		panic("after-settraceback")
	case "array-conv":
		s := make([]int, len(os.Args))
		a := [8]int(s)
		sink = a[0]
	case "neg-makeslice":
		n := len(os.Args) - 10
		sink = len(make([]int, n))
	case "none":
	default:
		println("OWN: unknown kind", kind)
		os.Exit(9)
	}
}

//go:noinline
func recovering(kind string) {
	defer func() {
		r := recover()
		switch v := r.(type) {
		case nil:
			fmt.Println("OWN: recovered nil")
		case string:
			fmt.Println("OWN: recovered string", v)
		case runtime.Error:
			fmt.Println("OWN: recovered runtime.Error", v.Error())
		case *myErr:
			fmt.Println("OWN: recovered myErr", v.code, v.Error())
		case error:
			fmt.Println("OWN: recovered error", v.Error())
		case stringer:
			fmt.Println("OWN: recovered stringer", v.String())
		case custom:
			fmt.Println("OWN: recovered custom", v.A, v.B)
		case int:
			fmt.Println("OWN: recovered int", v)
		default:
			fmt.Println("OWN: recovered other")
		}
	}()
	crash(kind)
}

//go:noinline
func where() {
	_, file, line, ok := runtime.Caller(0)
	fmt.Printf("OWN: caller0 file=%q line=%d ok=%v\n", file, line, ok)
	_, file, line, ok = runtime.Caller(1)
	fmt.Printf("OWN: caller1 file=%q line=%d ok=%v\n", file, line, ok)
	pcs := make([]uintptr, 8)
	n := runtime.Callers(0, pcs)
	frames := runtime.CallersFrames(pcs[:n])
	idx := 0
	for {
		fr, more := frames.Next()
		if fr.Function != "" && fr.Func != nil && fr.Func.Name() != "" {
			f, l := fr.Func.FileLine(fr.PC)
			_ = f
			_ = l
		}
		// Frame 0 is runtime.Callers, frames 1 and 2 are this function and main.main;
		// only the program's own frames are judged (the runtime is never obfuscated).
		if idx == 1 || idx == 2 {
			fmt.Printf("OWN: frame file=%q line=%d\n", fr.File, fr.Line)
		}
		idx++
		if !more {
			break
		}
	}
}

func init() {
	if len(os.Args) > 2 && os.Args[2] == "init" {
		println("OWN: in init")
		fmt.Println("OWN: stdout in init")
		crash(os.Args[1])
		println("OWN: init survived")
	}
}

func main() {
	kind, ctx := "none", "main"
	if len(os.Args) > 1 {
		kind = os.Args[1]
	}
	if len(os.Args) > 2 {
		ctx = os.Args[2]
	}
	fmt.Println("OWN: start", kind, ctx)
	println("OWN: stderr start")
	defer println("OWN: main deferred print")
	switch ctx {
	case "main":
		crash(kind)
	case "goroutine":
		done := make(chan bool)
		go func() {
			println("OWN: in goroutine")
			crash(kind)
			close(done) // only reached when the kind does not crash
		}()
		// no deadline of the program's own: on a loaded machine a stack overflow needs longer than any
		// fixed wait, and the run that lost the race would differ from the other (a false alarm met at
		// load average 77); a goroutine that never finishes is the harness watchdog's business
		<-done
	case "defer":
		func() {
			defer func() {
				println("OWN: in deferred func")
				crash(kind)
			}()
		}()
	case "recover":
		recovering(kind)
	case "where":
		where()
	case "init":
	}
	fmt.Println("OWN: end")
	println("OWN: stderr end")
}
`

var crashKinds = []string{
	"panic-string", "panic-error", "panic-stringer", "panic-custom", "panic-custom-error", "panic-nil", "panic-int", "panic-nested", "repanic",
	"nil-deref", "index", "slice-bounds", "div-zero", "type-assert", "type-assert-iface", "nil-map-write", "close-closed", "close-nil", "send-closed",
	"unlock-unlocked", "stack-overflow", "deadlock", "deadlock-mutex", "goexit-main", "exit-0", "exit-3", "exit-77", "settraceback-all", "array-conv", "neg-makeslice", "none",
}

var recoverKinds = []string{"panic-string", "panic-error", "panic-stringer", "panic-custom", "panic-custom-error", "panic-nil", "panic-int", "nil-deref", "index", "div-zero", "type-assert", "nil-map-write", "close-closed", "send-closed", "array-conv", "none"}

func ownLines(b []byte) []byte {
	var out []byte
	for _, l := range bytes.SplitAfter(b, []byte("\n")) {
		if bytes.HasPrefix(l, []byte("OWN:")) {
			out = append(out, l...)
		}
	}
	return out
}

func checkC10(c *Ctx) {
	c.SetRule("a crash-catalogue program (one crash kind x goroutine context per argv) is built by the regular toolchain and by garble -tiny; everything the program itself writes carries an OWN: prefix. " +
		"Per (kind, context, GOTRACEBACK): tiny stdout == regular stdout, tiny stderr == the OWN: lines of the regular stderr, exit status equal; recover() paths print the recovered value; " +
		"position queries under -tiny must give file \"\" or \"??\" and line 1 (0 for unknown frames). distinct_nontrivial = distinct (kind, context, GOTRACEBACK) cases in which the regular run wrote >=1 non-OWN byte to stderr (there was something to silence) plus recover/position cases.")
	c.Assume("GOTRACEBACK=crash is excluded (aborts with a core-dumping signal)", "program-requested traces (debug.PrintStack, runtime.Stack) are not crashes and are not judged")
	g := buildGarble("", false)
	// K1g: -tiny while GOGARBLE selects only the program's module: the statement has no GOGARBLE
	// condition, the runtime is silenced whether or not it is among the obfuscated packages.
	K1g := K1.with("K1g", nil, []string{"GOGARBLE=zqcrash.example.com"}, nil)
	cfgs := []Config{K1, K1g}
	tbs := []string{"", "none", "all"}
	if !c.Quick() {
		cfgs = []Config{K1, K5, K1g}
		tbs = []string{"", "none", "single", "all", "system"}
	}
	pool := warmPool(g, false, cfgs...)
	p := &Prog{Module: "zqcrash.example.com/crash", Files: map[string]string{"go.mod": "module zqcrash.example.com/crash\n\ngo 1.26\n", "main.go": crashProgram}}
	w := materialize(p, "c10")
	defer w.cleanup()
	plainBin := filepath.Join(w.Root, "plain.bin")
	if !plainReference(c, w, plainBin, false) {
		return
	}
	for _, cfg := range cfgs {
		bin := filepath.Join(w.Root, "tiny-"+cfg.Name+".bin")
		r := w.garbleBuild(g, pool.Box(filepath.Join(w.Root, "tmp-"+cfg.Name)), cfg, bin, nil)
		if r.TimedOut {
			c.Inconclusive("garble -tiny build watchdog fired")
			continue
		}
		if !r.OK() {
			c.Violate("build-fails", "garble "+strings.Join(cfg.GFlags, " ")+" build of the crash catalogue fails\n"+r.String(), w.replayFiles(nil))
			continue
		}
		type tcase struct{ kind, ctx, tb string }
		var cases []tcase
		for _, k := range crashKinds {
			ctxs := []string{"main", "goroutine", "defer", "init"}
			switch k {
			case "deadlock", "deadlock-mutex", "goexit-main":
				ctxs = []string{"main"}
			case "stack-overflow":
				ctxs = []string{"main", "goroutine"}
			}
			for _, ctx := range ctxs {
				for _, tb := range tbs {
					cases = append(cases, tcase{k, ctx, tb})
				}
			}
		}
		for _, k := range recoverKinds {
			cases = append(cases, tcase{k, "recover", ""})
		}
		cases = append(cases, tcase{"none", "where", ""})
		if c.Quick() {
			// Keep every kind in main context and every context for a third of the kinds.
			var sel []tcase
			for i, tc := range cases {
				if tc.ctx == "main" || tc.ctx == "recover" || tc.ctx == "where" || i%3 == 0 {
					sel = append(sel, tc)
				}
			}
			cases = sel
		}
		parallel(len(cases), 16, func(i int) {
			tc := cases[i]
			var env []string
			if tc.tb != "" {
				env = []string{"GOTRACEBACK=" + tc.tb}
			}
			args := []string{tc.kind, tc.ctx}
			pr := runBin(plainBin, args, env, 4*time.Minute)
			tr := runBin(bin, args, env, 4*time.Minute)
			if pr.TimedOut || tr.TimedOut {
				if pr.TimedOut {
					c.Inconclusive("regular crash program timed out on " + tc.kind)
				} else {
					c.Violate("hang/"+tc.kind, fmt.Sprintf("%s: -tiny program hangs on %v where the regular build exits with %d", cfg.Name, args, pr.RC), w.replayFiles(nil))
				}
				return
			}
			want := ownLines(pr.Err)
			silenced := len(pr.Err) > len(want)
			sig := ""
			if silenced || tc.ctx == "recover" || tc.ctx == "where" {
				sig = fmt.Sprintf("%s|%s|%s|%s", cfg.Name, tc.kind, tc.ctx, tc.tb)
			}
			c.Eval(sig)
			if i%40 == 0 {
				c.Sample(map[string]any{"argv": args, "GOTRACEBACK": tc.tb, "regular_rc": pr.RC, "tiny_rc": tr.RC, "regular_stderr_bytes": len(pr.Err), "tiny_stderr": string(tr.Err)})
			}
			files := func() map[string]string {
				return w.replayFiles(map[string]string{"case.txt": fmt.Sprintf("config=%s argv=%q GOTRACEBACK=%q\n", cfg.Key(), args, tc.tb), "regular.txt": describeRun("regular", args, pr), "tiny.txt": describeRun("tiny", args, tr)})
			}
			if tc.ctx == "where" {
				// Position queries: no file name, line 1.
				for _, l := range lines(tr.Out) {
					if !strings.Contains(l, "file=") {
						continue
					}
					var file string
					var line int
					fmt.Sscanf(l[strings.Index(l, "file="):], "file=%q line=%d", &file, &line)
					if (file != "" && file != "??") || (line != 1 && line != 0) {
						c.Violate("position/"+tc.kind, fmt.Sprintf("%s: position query under -tiny reports %q", cfg.Name, l), files())
					}
				}
				return
			}
			if tr.RC != pr.RC {
				c.Violate("exit-status/"+tc.kind, fmt.Sprintf("%s: %v exits with %d under -tiny, %d regularly", cfg.Name, args, tr.RC, pr.RC), files())
			}
			if !bytes.Equal(tr.Out, pr.Out) {
				c.Violate("stdout/"+tc.kind, fmt.Sprintf("%s: %v stdout differs under -tiny", cfg.Name, args), files())
			}
			if !bytes.Equal(tr.Err, want) {
				c.Violate("stderr/"+tc.kind, fmt.Sprintf("%s: %v (GOTRACEBACK=%q) stderr under -tiny is %q, want only the program's own lines %q", cfg.Name, args, tc.tb, clip(tr.Err, 300), clip(want, 300)), files())
			}
		})
		c.Count("cases."+cfg.Name, len(cases))
	}
}
