package main

import (
	"fmt"
	"strings"
)

// Planted is a literal planted for C09 (see gen_lits.go).
type Planted struct {
	Hex     string `json:"hex"`     // bytes of the literal, hex
	Form    string `json:"form"`    // string, typed, concat, bytes, array, ptrbytes, ptrarray, const...
	Pos     string `json:"pos"`     // syntactic position
	Pkg     string `json:"pkg"`     // import path
	Allowed string `json:"allowed"` // non-empty: documented exception class, may stay in the binary
}

func init() {
	feature("structs", featStructs)
	feature("embedding", featEmbedding)
	feature("alias", featAlias)
	feature("generics", featGenerics)
	feature("ifaceunexp", featIfaceUnexported)
	feature("closures", featClosures)
	feature("typeswitch", featTypeSwitch)
	feature("labels", featLabels)
	feature("methodvals", featMethodValues)
	feature("structconv", featStructConv)
	feature("imports", featImports)
	feature("asm", featAsm)
	feature("linkname", featLinkname)
	feature("inits", featInits)
	feature("ldflagsx", featLdflagsX)
	feature("consts", featConsts)
	feature("mapsslices", featMapsSlices)
	feature("goroutines", featGoroutines)
	feature("errors", featErrors)
	feature("tests", featTests)
	feature("methparam", featMethodStructParam)
	feature("samenames", featSameNames)
	// Not in featureOrder (never picked at random): only programs that ask for it get it.
	featureTable["testdeps"] = featTestDeps
}

// d merges name tables and extra values for templates.
func d(ms ...map[string]string) map[string]string {
	out := map[string]string{}
	for _, m := range ms {
		for k, v := range m {
			out[k] = v
		}
	}
	return out
}

func featStructs(g *Gen) {
	p := g.lib()
	n := g.names(p, "T=type,E", "F1=field,E", "F2=field,E", "f3=field,u", "New=func,E", "Exp=emethod,E", "um=umethod,u", "helper=func,u", "Sink=var,E")
	f := g.newFile(p, "structs")
	f.add(`
type «.T» struct {
	«.F1» int
	«.F2» string
	«.f3» []int
}

// «.Sink» boxes the type so that its descriptor (type, field and method names) is linked in.
var «.Sink» any = «.T»{}

//go:noinline
func «.New»(a int, s string) *«.T» {
	return &«.T»{«.F1»: a, «.F2»: s, «.f3»: «.helper»(a)}
}

//go:noinline
func «.helper»(a int) []int { return []int{a, a * 2, a * 3} }

//go:noinline
func (t *«.T») «.Exp»() int { return t.«.F1» + len(t.«.F2») + t.«.um»() }

//go:noinline
func (t *«.T») «.um»() int {
	s := 0
	for _, v := range t.«.f3» {
		s += v
	}
	return s
}
`, n)
	mf, fn := g.mainFeat("structs")
	mf.std("fmt")
	q := mf.use(p, g.R)
	mf.add(`
func «.fn»(args []string) {
	t := «.q»«.New»(len(args)+3, "abc")
	t.«.F2» += fmt.Sprint(len(args))
	fmt.Println("structs", t.«.Exp»(), t.«.F1», t.«.F2», «.q»«.Sink» != nil)
}
`, d(n, map[string]string{"fn": fn, "q": q}))
}

func featEmbedding(g *Gen) {
	p := g.lib()
	n := g.names(p, "Base=type,E", "BF=field,E", "bm=umethod,u", "BM=emethod,E", "Outer=type,E", "OF=field,E", "Iface=type,E", "inner=type,u", "IF=field,E", "Mk=func,E", "Sink=var,E")
	f := g.newFile(p, "embed")
	f.add(`
type «.Base» struct{ «.BF» int }

//go:noinline
func (b «.Base») «.bm»() int { return b.«.BF» * 7 }

//go:noinline
func (b *«.Base») «.BM»() int { return b.«.bm»() + 1 }

type «.Iface» interface{ «.BM»() int }

type «.inner» struct{ «.IF» string }

// «.Outer» embeds a struct by value, an unexported struct by pointer and an interface.
type «.Outer» struct {
	«.Base»
	*«.inner»
	«.Iface»
	«.OF» int
}

var «.Sink» any = «.Outer»{}

//go:noinline
func «.Mk»(v int) *«.Outer» {
	b := &«.Base»{«.BF»: v + 1}
	return &«.Outer»{«.Base»: «.Base»{«.BF»: v}, «.inner»: &«.inner»{«.IF»: "in"}, «.Iface»: b, «.OF»: v * 2}
}
`, n)
	mf, fn := g.mainFeat("embed")
	mf.std("fmt")
	q := mf.use(p, g.R)
	mf.add(`
func «.fn»(args []string) {
	o := «.q»«.Mk»(len(args) + 2)
	// promoted field, promoted methods through struct and through interface, pointer-embedded field
	fmt.Println("embed", o.«.BF», o.«.Base».«.BM»(), o.«.Iface».«.BM»(), o.«.IF», o.«.OF», o.«.Base».«.BF»)
}
`, d(n, map[string]string{"fn": fn, "q": q}))
}

func featAlias(g *Gen) {
	lo, hi := g.twoLibs()
	n1 := g.names(lo, "G=type,E", "V=field,E", "W=field,E", "Get=emethod,E", "Plain=type,E", "PF=field,E")
	f1 := g.newFile(lo, "aliasbase")
	f1.add(`
type «.G»[T any] struct {
	«.V» T
	«.W» int
}

//go:noinline
func (g «.G»[T]) «.Get»() T { return g.«.V» }

type «.Plain» struct{ «.PF» int }
`, n1)
	n2 := g.names(hi, "AG=type,E", "AP=type,E", "H=type,E", "X=field,E", "MkH=func,E", "local=type,u", "Sink=var,E")
	f2 := g.newFile(hi, "alias")
	q1 := f2.use(lo, g.R)
	f2.add(`
// «.AG» is an alias of a generic struct instantiation from another package, embedded below.
type «.AG» = «.q1»«.G»[int]

type «.AP» = «.q1»«.Plain»

type «.local» = struct{ A, B int }

type «.H» struct {
	«.AG»
	«.AP»
	«.X» int
}

var «.Sink» any = «.H»{}

//go:noinline
func «.MkH»(v int) «.H» {
	var l «.local»
	l.A, l.B = v, v+1
	return «.H»{«.AG»: «.AG»{«.V»: v * 3, «.W»: l.B}, «.AP»: «.AP»{«.PF»: l.A}, «.X»: v}
}
`, d(n1, n2, map[string]string{"q1": q1}))
	mf, fn := g.mainFeat("alias")
	mf.std("fmt")
	q2 := mf.use(hi, g.R)
	mf.add(`
func «.fn»(args []string) {
	h := «.q2»«.MkH»(len(args) + 5)
	fmt.Println("alias", h.«.V», h.«.W», h.«.Get»(), h.«.PF», h.«.X», h.«.AG».«.V», h.«.AP».«.PF»)
}
`, d(n1, n2, map[string]string{"fn": fn, "q2": q2}))
}

func featGenerics(g *Gen) {
	p := g.lib()
	n := g.names(p, "Num=type,E", "Sum=func,E", "Map=func,E", "Stack=type,E", "items=field,u", "Push=emethod,E", "pop=umethod,u", "Pop=emethod,E", "Pair=type,E", "K=field,E", "Vv=field,E", "MkPair=func,E", "MyInt=type,E")
	f := g.newFile(p, "generics")
	f.add(`
type «.Num» interface{ ~int | ~int64 | ~float64 }

type «.MyInt» int

//go:noinline
func «.Sum»[T «.Num»](xs []T) T {
	var s T
	for _, x := range xs {
		s += x
	}
	return s
}

//go:noinline
func «.Map»[A, B any](xs []A, f func(A) B) []B {
	out := make([]B, 0, len(xs))
	for _, x := range xs {
		out = append(out, f(x))
	}
	return out
}

type «.Stack»[T any] struct{ «.items» []T }

func (s *«.Stack»[T]) «.Push»(v T) { s.«.items» = append(s.«.items», v) }

//go:noinline
func (s *«.Stack»[T]) «.pop»() (T, bool) {
	var zero T
	if len(s.«.items») == 0 {
		return zero, false
	}
	v := s.«.items»[len(s.«.items»)-1]
	s.«.items» = s.«.items»[:len(s.«.items»)-1]
	return v, true
}

func (s *«.Stack»[T]) «.Pop»() T { v, _ := s.«.pop»(); return v }

type «.Pair»[K comparable, V any] struct {
	«.K»  K
	«.Vv» V
}

//go:noinline
func «.MkPair»[K comparable, V any](k K, v V) «.Pair»[K, V] { return «.Pair»[K, V]{«.K»: k, «.Vv»: v} }
`, n)
	mf, fn := g.mainFeat("generics")
	mf.std("fmt")
	q := mf.use(p, g.R)
	mf.add(`
func «.fn»(args []string) {
	n := len(args)
	ints := []«.q»«.MyInt»{1, 2, «.q»«.MyInt»(n)}
	fl := []float64{0.5, 1.5}
	strs := «.q»«.Map»(ints, func(i «.q»«.MyInt») string { return fmt.Sprint(int(i) * 2) })
	var st «.q»«.Stack»[string]
	for _, s := range strs {
		st.«.Push»(s)
	}
	pr := «.q»«.MkPair»("k", n)
	fmt.Println("generics", «.q»«.Sum»(ints), «.q»«.Sum»(fl), strs, st.«.Pop»(), st.«.Pop»(), pr.«.K», pr.«.Vv»)
}
`, d(n, map[string]string{"fn": fn, "q": q}))
}

func featIfaceUnexported(g *Gen) {
	p := g.lib()
	n := g.names(p, "shape=type,u", "area=umethod,u", "Name=emethod,E", "sq=type,u", "side=field,u", "rect=type,u", "w=field,u", "h=field,u", "Shapes=func,E", "Total=func,E", "Shape=type,E")
	f := g.newFile(p, "ifacea")
	f.add(`
type «.shape» interface {
	«.area»() int
	«.Name»() string
}

// «.Shape» is the exported view; its unexported method keeps other packages from implementing it.
type «.Shape» interface {
	«.shape»
}

type «.sq» struct{ «.side» int }

//go:noinline
func (s «.sq») «.area»() int { return s.«.side» * s.«.side» }
func (s «.sq») «.Name»() string { return "sq" }
`, n)
	f2 := g.newFile(p, "ifaceb")
	f2.add(`
type «.rect» struct{ «.w», «.h» int }

//go:noinline
func (r *«.rect») «.area»() int { return r.«.w» * r.«.h» }
func (r *«.rect») «.Name»() string { return "rect" }

//go:noinline
func «.Shapes»(n int) []«.Shape» {
	return []«.Shape»{«.sq»{«.side»: n}, &«.rect»{«.w»: n, «.h»: n + 1}, «.sq»{«.side»: 2}}
}

//go:noinline
func «.Total»(ss []«.Shape») (t int, names string) {
	for _, s := range ss {
		t += s.«.area»()
		names += s.«.Name»() + ";"
	}
	return
}
`, n)
	mf, fn := g.mainFeat("iface")
	mf.std("fmt")
	q := mf.use(p, g.R)
	mf.add(`
func «.fn»(args []string) {
	ss := «.q»«.Shapes»(len(args) + 3)
	t, names := «.q»«.Total»(ss)
	fmt.Println("iface", t, names, ss[0].«.Name»())
}
`, d(n, map[string]string{"fn": fn, "q": q}))
}

func featClosures(g *Gen) {
	p := g.lib()
	n := g.names(p, "Counter=func,E", "Adders=func,E", "Apply=func,E", "acc=type,u", "total=field,u")
	f := g.newFile(p, "closures")
	f.add(`
type «.acc» struct{ «.total» int }

//go:noinline
func «.Counter»(start int) (inc func() int, get func() int) {
	a := &«.acc»{«.total»: start}
	inc = func() int { a.«.total»++; return a.«.total» }
	get = func() int { return a.«.total» }
	return
}

//go:noinline
func «.Adders»(n int) []func(int) int {
	var out []func(int) int
	for i := 0; i < n; i++ {
		k := i * i
		out = append(out, func(x int) int { return x + k + i })
	}
	return out
}

//go:noinline
func «.Apply»(fs []func(int) int, v int) (r []int) {
	defer func() { r = append(r, len(fs)) }()
	for _, f := range fs {
		r = append(r, f(v))
	}
	return r
}
`, n)
	mf, fn := g.mainFeat("closures")
	mf.std("fmt")
	q := mf.use(p, g.R)
	mf.add(`
func «.fn»(args []string) {
	inc, get := «.q»«.Counter»(len(args))
	inc()
	inc()
	captured := 10
	add := func(d int) { captured += d }
	add(inc())
	fmt.Println("closures", get(), captured, «.q»«.Apply»(«.q»«.Adders»(3+len(args)%2), 100))
}
`, d(n, map[string]string{"fn": fn, "q": q}))
}

func featTypeSwitch(g *Gen) {
	p := g.lib()
	n := g.names(p, "Kind=func,E", "TA=type,E", "TB=type,E", "FA=field,E", "str=umethod,u", "Str=type,u")
	f := g.newFile(p, "tswitch")
	f.add(`
type «.TA» struct{ «.FA» int }
type «.TB» []string
type «.Str» interface{ «.str»() string }

func (a «.TA») «.str»() string { return "TA" }

//go:noinline
func «.Kind»(vs ...any) (out []string) {
	for _, v := range vs {
		// the symbolic variable "val" has no object of its own
		switch val := v.(type) {
		case nil:
			out = append(out, "nil")
		case int:
			out = append(out, "int", string(rune('0'+val%10)))
		case string:
			out = append(out, "string:"+val)
		case «.TA»:
			out = append(out, "TA", string(rune('0'+val.«.FA»%10)))
		case *«.TA», «.TB»:
			_ = val
			out = append(out, "ptrTA-or-TB")
		case «.Str»:
			out = append(out, "Str:"+val.«.str»())
		case error:
			out = append(out, "error:"+val.Error())
		default:
			out = append(out, "other")
		}
	}
	return
}
`, n)
	mf, fn := g.mainFeat("tswitch")
	mf.std("fmt", "errors")
	q := mf.use(p, g.R)
	mf.add(`
func «.fn»(args []string) {
	fmt.Println("tswitch", «.q»«.Kind»(nil, len(args)+4, "s", «.q»«.TA»{«.FA»: 7}, &«.q»«.TA»{}, «.q»«.TB»{"x"}, errors.New("e"), 1.5))
}
`, d(n, map[string]string{"fn": fn, "q": q}))
}

func featLabels(g *Gen) {
	p := g.lib()
	n := g.names(p, "Walk=func,E", "Find=func,E")
	f := g.newFile(p, "labels")
	f.add(`
//go:noinline
func «.Walk»(n int) (trace []int) {
	i := 0
Top:
	if i >= n {
		goto Done
	}
	trace = append(trace, i)
	i += 2
	goto Top
Done:
	trace = append(trace, -1)
Outer:
	for a := 0; a < 4; a++ {
	Inner:
		for b := 0; b < 4; b++ {
			switch {
			case b == 1:
				continue Inner
			case a == 2:
				continue Outer
			case a+b > 4:
				break Outer
			}
			trace = append(trace, a*10+b)
		}
	}
	return
}

//go:noinline
func «.Find»(grid [][]int, want int) (int, int) {
Search:
	for y, row := range grid {
		for x, v := range row {
			if v == want {
				return x, y
			}
			if v < 0 {
				break Search
			}
		}
	}
	return -1, -1
}
`, n)
	mf, fn := g.mainFeat("labels")
	mf.std("fmt")
	q := mf.use(p, g.R)
	mf.add(`
func «.fn»(args []string) {
	x, y := «.q»«.Find»([][]int{{1, 2}, {3, 4 + len(args)}, {-1, 9}}, 4)
	fmt.Println("labels", «.q»«.Walk»(5+len(args)), x, y)
}
`, d(n, map[string]string{"fn": fn, "q": q}))
}

func featMethodValues(g *Gen) {
	p := g.lib()
	n := g.names(p, "M=type,E", "V=field,E", "Add=emethod,E", "mul=umethod,u", "Mul=func,E", "Bound=func,E", "Ops=type,E", "fn=field,u", "Run=emethod,E", "NewOps=func,E")
	f := g.newFile(p, "methvals")
	f.add(`
type «.M» struct{ «.V» int }

//go:noinline
func (m «.M») «.Add»(d int) int { return m.«.V» + d }

//go:noinline
func (m *«.M») «.mul»(d int) int { m.«.V» *= d; return m.«.V» }

// «.Mul» returns a method expression of an unexported pointer method.
func «.Mul»() func(*«.M», int) int { return (*«.M»).«.mul» }

// «.Bound» returns a bound method value.
func «.Bound»(m *«.M») func(int) int { return m.«.mul» }

type «.Ops» struct{ «.fn» func(int) int }

func «.NewOps»(f func(int) int) «.Ops» { return «.Ops»{«.fn»: f} }
func (o «.Ops») «.Run»(v int) int        { return o.«.fn»(v) }
`, n)
	mf, fn := g.mainFeat("methvals")
	mf.std("fmt")
	q := mf.use(p, g.R)
	mf.add(`
func «.fn»(args []string) {
	m := &«.q»«.M»{«.V»: 3 + len(args)}
	add := m.«.Add»          // bound value method (copies m)
	expr := «.q»«.M».«.Add»  // method expression
	mul := «.q»«.Mul»()
	b := «.q»«.Bound»(m)
	r1 := mul(m, 2)
	r2 := b(3)
	ops := «.q»«.NewOps»(add)
	fmt.Println("methvals", add(1), expr(*m, 1), r1, r2, m.«.V», ops.«.Run»(10))
}
`, d(n, map[string]string{"fn": fn, "q": q}))
}

func featStructConv(g *Gen) {
	lo, hi := g.twoLibs()
	// Identical struct types declared in two packages (exported fields, different tags).
	fa, fb := g.mark("A", "field", true, nil, true), g.mark("B", "field", true, nil, true)
	n1 := g.names(lo, "P=type,E", "MkP=func,E")
	n2 := g.names(hi, "Q=type,E", "SumQ=func,E")
	f1 := g.newFile(lo, "convp")
	f1.add("type «.P» struct {\n\t«.A» int `json:\"a\"`\n\t«.B» string\n}\n\n//go:noinline\nfunc «.MkP»(v int) «.P» { return «.P»{«.A»: v, «.B»: \"p\"} }\n", d(n1, map[string]string{"A": fa, "B": fb}))
	f2 := g.newFile(hi, "convq")
	f2.add("type «.Q» struct {\n\t«.A» int\n\t«.B» string `x:\"y\"`\n}\n\n//go:noinline\nfunc «.SumQ»(q «.Q») int { return q.«.A» + len(q.«.B») }\n", d(n2, map[string]string{"A": fa, "B": fb}))
	mf, fn := g.mainFeat("conv")
	mf.std("fmt")
	q1, q2 := mf.use(lo, g.R), mf.use(hi, g.R)
	mf.add(`
func «.fn»(args []string) {
	p := «.q1»«.MkP»(len(args) + 1)
	q := «.q2»«.Q»(p) // cross-package conversion between identical struct types
	var anon struct {
		«.A» int
		«.B» string
	} = struct {
		«.A» int
		«.B» string
	}(p)
	anon.«.A»++
	back := «.q1»«.P»(anon)
	lit := «.q2»«.Q»{«.A»: 5, «.B»: "lit"}
	fmt.Println("conv", «.q2»«.SumQ»(q), q.«.A», q.«.B», back.«.A», «.q2»«.SumQ»(«.q2»«.Q»(back)), lit.«.B»)
}
`, d(n1, n2, map[string]string{"fn": fn, "q1": q1, "q2": q2, "A": fa, "B": fb}))
}

func featImports(g *Gen) {
	lo, hi := g.twoLibs()
	n1 := g.names(lo, "Registry=var,E", "Register=func,E", "Dotted=func,E", "DotT=type,E", "DF=field,E")
	f1 := g.newFile(lo, "registry")
	f1.std("sort")
	f1.add(`
var «.Registry» []string

func «.Register»(s string) { «.Registry» = append(«.Registry», s); sort.Strings(«.Registry») }

type «.DotT» struct{ «.DF» int }

//go:noinline
func «.Dotted»(v int) «.DotT» { return «.DotT»{«.DF»: v * 11} }
`, n1)
	// hi registers itself from init; main blank-imports nothing else from it.
	n2 := g.names(hi, "side=func,u")
	f2 := g.newFile(hi, "sideeffect")
	q1 := f2.use(lo, g.R)
	f2.add(`
func init() { «.q1»«.Register»(«.side»()) }

//go:noinline
func «.side»() string { return "side-effect-registered" }
`, d(n1, n2, map[string]string{"q1": q1}))
	mf, fn := g.mainFeat("imports")
	mf.std("fmt")
	mf.imports[lo.Path] = "." // dot import
	if _, ok := mf.imports[hi.Path]; !ok {
		mf.imports[hi.Path] = "_" // blank import
	}
	mf.add(`
func «.fn»(args []string) {
	d := «.Dotted»(len(args) + 1)
	var t «.DotT» = d
	«.Register»("from-main")
	fmt.Println("imports", t.«.DF», «.Registry»)
}
`, d(n1, map[string]string{"fn": fn}))
}

func featAsm(g *Gen) {
	p := g.lib()
	g.HasAsm = true
	n := g.names(p, "asmAdd=func,u", "getY=func,u", "Pt=type,E", "X=field,E", "Y=field,E", "Add=func,E", "GetY=func,E", "ptSize=func,u", "PtSize=func,E")
	f := g.newFile(p, "asmdecl")
	f.add(`
type «.Pt» struct{ «.X», «.Y» int64 }

func «.asmAdd»(a, b int64) int64
func «.getY»(p *«.Pt») int64
func «.ptSize»() int64

//go:noinline
func «.Add»(a, b int64) int64 { return «.asmAdd»(a, b) }

//go:noinline
func «.GetY»(x, y int64) int64 { return «.getY»(&«.Pt»{«.X»: x, «.Y»: y}) }

func «.PtSize»() int64 { return «.ptSize»() }
`, n)
	g.seq++
	sname := "zq" + randLower(g.R, 8) + "stub_amd64.s"
	g.Markers = append(g.Markers, Marker{Name: strings.TrimSuffix(sname, "_amd64.s"), Class: "filename", Pkg: p.Path, Hide: true})
	sf := p.file(sname)
	sf.raw = fmt.Sprintf(`#include "textflag.h"
#include "go_asm.h"

// func %[1]s(a, b int64) int64
TEXT ·%[1]s(SB),NOSPLIT,$0-24
	MOVQ a+0(FP), AX
	ADDQ b+8(FP), AX
	MOVQ AX, ret+16(FP)
	RET

// func %[2]s(p *%[3]s) int64 ; uses a go_asm.h field offset
TEXT ·%[2]s(SB),NOSPLIT,$0-16
	MOVQ p+0(FP), AX
	MOVQ %[3]s_%[4]s(AX), AX
	MOVQ AX, ret+8(FP)
	RET

// func %[5]s() int64 ; uses a go_asm.h struct size
TEXT ·%[5]s(SB),NOSPLIT,$0-8
	MOVQ $%[3]s__size, AX
	MOVQ AX, ret+0(FP)
	RET
`, n["asmAdd"], n["getY"], n["Pt"], n["Y"], n["ptSize"])
	mf, fn := g.mainFeat("asm")
	mf.std("fmt")
	q := mf.use(p, g.R)
	mf.add(`
func «.fn»(args []string) {
	fmt.Println("asm", «.q»«.Add»(40, int64(len(args))+2), «.q»«.GetY»(1, 77), «.q»«.PtSize»())
}
`, d(n, map[string]string{"fn": fn, "q": q}))
}

func featLinkname(g *Gen) {
	lo, hi := g.twoLibs()
	n1 := g.names(lo, "Impl=func,E", "Recv=type,E", "RF=field,E", "meth=umethod,u", "pmeth=umethod,u", "hidden=func,u", "Touch=func,E")
	f1 := g.newFile(lo, "lnimpl")
	f1.add(`
//go:noinline
func «.Impl»(v int) int { return v*3 + «.hidden»(v) }

//go:noinline
func «.hidden»(v int) int { return v + 100 }

type «.Recv» struct{ «.RF» string }

//go:noinline
func (r «.Recv») «.meth»() string { return "m:" + r.«.RF» }

//go:noinline
func (r *«.Recv») «.pmeth»(s string) string { r.«.RF» += s; return "p:" + r.«.RF» }

// «.Touch» keeps the methods alive.
func «.Touch»() string { r := «.Recv»{«.RF»: "t"}; return r.«.meth»() + r.«.pmeth»("x") }
`, n1)
	n2 := g.names(hi, "pullFunc=func,u", "pullHidden=func,u", "pullMeth=func,u", "pullPMeth=func,u", "Use=func,E")
	f2 := g.newFile(hi, "lnpull")
	f2.imports["unsafe"] = "_"
	q1 := f2.use(lo, g.R)
	f2.add(`
//go:linkname «.pullFunc» «.lopath».«.Impl»
func «.pullFunc»(v int) int

//go:linkname «.pullHidden» «.lopath».«.hidden»
func «.pullHidden»(v int) int

//go:linkname «.pullMeth» «.lopath».«.Recv».«.meth»
func «.pullMeth»(«.q1»«.Recv») string

//go:linkname «.pullPMeth» «.lopath».(*«.Recv»).«.pmeth»
func «.pullPMeth»(*«.q1»«.Recv», string) string

//go:noinline
func «.Use»(v int) (int, int, string, string) {
	r := «.q1»«.Recv»{«.RF»: "f"}
	return «.pullFunc»(v), «.pullHidden»(v), «.pullMeth»(r), «.pullPMeth»(&r, "+") + «.q1»«.Touch»()
}
`, d(n1, n2, map[string]string{"q1": q1, "lopath": lo.Path}))
	mf, fn := g.mainFeat("linkname")
	mf.std("fmt")
	q2 := mf.use(hi, g.R)
	mf.add(`
func «.fn»(args []string) {
	a, b, c, e := «.q2»«.Use»(len(args) + 2)
	fmt.Println("linkname", a, b, c, e)
}
`, d(n2, map[string]string{"fn": fn, "q2": q2}))
}

func featInits(g *Gen) {
	p := g.lib()
	n := g.names(p, "order=var,u", "Order=func,E", "dep=var,u", "mk=func,u")
	// Package-level var initialisation order + several init funcs in several files.
	fa := g.Main // placeholder to keep gofmt happy
	_ = fa
	f1 := p.file("a_" + randLower(g.R, 6) + "init.go")
	f1.add(`
var «.order» []string

var «.dep» = «.mk»("var-dep")

func «.mk»(s string) string { «.order» = append(«.order», "mk:"+s); return s }

func init() { «.order» = append(«.order», "a1") }
func init() { «.order» = append(«.order», "a2:"+«.dep») }

func «.Order»() []string { return «.order» }
`, n)
	f2 := p.file("b_" + randLower(g.R, 6) + "init.go")
	f2.add(`
func init() { «.order» = append(«.order», "b1") }
`, n)
	mf, fn := g.mainFeat("inits")
	mf.std("fmt")
	q := mf.use(p, g.R)
	mf.add(`
var «.mainInit» = []string{"v"}

func init() { «.mainInit» = append(«.mainInit», "i1") }
func init() { «.mainInit» = append(«.mainInit», "i2") }

func «.fn»(args []string) {
	fmt.Println("inits", «.q»«.Order»(), «.mainInit», len(args))
}
`, d(n, map[string]string{"fn": fn, "q": q, "mainInit": g.mark("mainInit", "var", false, g.Main, true)}))
}

func featLdflagsX(g *Gen) {
	p := g.lib()
	n := g.names(p, "Version=var,E", "unset=var,u", "Get=func,E")
	f := g.newFile(p, "ldx")
	f.add(`
var «.Version» = "lib-default"

var «.unset» string

//go:noinline
func «.Get»() (string, string) { return «.Version», «.unset» }
`, n)
	mv := g.mark("mainVersion", "var", false, g.Main, true)
	mv2 := g.mark("mainUnchanged", "var", false, g.Main, true)
	g.LdX = append(g.LdX, p.Path+"."+n["Version"]+"=lib-injected-"+randLower(g.R, 4), p.Path+"."+n["unset"]+"=was-unset", "main."+mv+"=main-injected-"+randLower(g.R, 4))
	mf, fn := g.mainFeat("ldx")
	mf.std("fmt")
	q := mf.use(p, g.R)
	mf.add(`
var «.mv» = "main-default"
var «.mv2» = "stays"

func «.fn»(args []string) {
	a, b := «.q»«.Get»()
	fmt.Println("ldx", a, b, «.mv», «.mv2», len(args))
}
`, d(n, map[string]string{"fn": fn, "q": q, "mv": mv, "mv2": mv2}))
}

func featConsts(g *Gen) {
	p := g.lib()
	n := g.names(p, "Color=type,E", "Red=const,E", "Green=const,E", "Blue=const,E", "limit=const,u", "Clamp=func,E", "Arr=type,E", "Flags=type,E", "FA=const,E", "FB=const,E", "Has=emethod,E")
	f := g.newFile(p, "consts")
	f.add(`
type «.Color» int

const (
	«.Red» «.Color» = iota + 1
	«.Green»
	«.Blue»
)

const «.limit» = 4

type «.Arr» [«.limit»]int

type «.Flags» uint8

const (
	«.FA» «.Flags» = 1 << iota
	«.FB»
)

func (f «.Flags») «.Has»(o «.Flags») bool { return f&o != 0 }

func (c «.Color») String() string {
	switch c {
	case «.Red»:
		return "red"
	case «.Green»:
		return "green"
	case «.Blue»:
		return "blue"
	}
	return "?"
}

//go:noinline
func «.Clamp»(v int) («.Color», «.Arr») {
	var a «.Arr»
	for i := range a {
		a[i] = v + i
	}
	if v > «.limit» {
		v = «.limit»
	}
	return «.Color»(v%3 + 1), a
}
`, n)
	mf, fn := g.mainFeat("consts")
	mf.std("fmt")
	q := mf.use(p, g.R)
	mf.add(`
func «.fn»(args []string) {
	c, a := «.q»«.Clamp»(len(args) + 1)
	fl := «.q»«.FA» | «.q»«.FB»
	fmt.Println("consts", c.String(), int(c), a[3], len(a), «.q»«.Blue».String(), fl.«.Has»(«.q»«.FB»), c == «.q»«.Green»)
}
`, d(n, map[string]string{"fn": fn, "q": q}))
}

func featMapsSlices(g *Gen) {
	p := g.lib()
	n := g.names(p, "Rec=type,E", "ID=field,E", "Tag=field,E", "score=field,u", "Index=func,E", "Top=func,E", "Key=type,E", "KA=field,E", "KB=field,E")
	f := g.newFile(p, "maps")
	f.std("sort")
	f.add(`
type «.Rec» struct {
	«.ID»    int
	«.Tag»   string
	«.score» int
}

type «.Key» struct {
	«.KA» int
	«.KB» string
}

//go:noinline
func «.Index»(n int) map[«.Key»]*«.Rec» {
	m := map[«.Key»]*«.Rec»{}
	for i := 0; i < n; i++ {
		k := «.Key»{«.KA»: i % 3, «.KB»: string(rune('a' + i%5))}
		if r, ok := m[k]; ok {
			r.«.score» += i
			continue
		}
		m[k] = &«.Rec»{«.ID»: i, «.Tag»: k.«.KB», «.score»: i * 2}
	}
	return m
}

//go:noinline
func «.Top»(m map[«.Key»]*«.Rec», k int) (ids []int, total int) {
	recs := make([]*«.Rec», 0, len(m))
	for _, r := range m {
		recs = append(recs, r)
	}
	sort.Slice(recs, func(i, j int) bool {
		if recs[i].«.score» != recs[j].«.score» {
			return recs[i].«.score» > recs[j].«.score»
		}
		return recs[i].«.ID» < recs[j].«.ID»
	})
	for i, r := range recs {
		total += r.«.score»
		if i < k {
			ids = append(ids, r.«.ID»)
		}
	}
	return
}
`, n)
	mf, fn := g.mainFeat("maps")
	mf.std("fmt")
	q := mf.use(p, g.R)
	mf.add(`
func «.fn»(args []string) {
	m := «.q»«.Index»(12 + len(args))
	ids, total := «.q»«.Top»(m, 4)
	fmt.Println("maps", len(m), ids, total, m[«.q»«.Key»{«.KA»: 1, «.KB»: "b"}].«.Tag»)
}
`, d(n, map[string]string{"fn": fn, "q": q}))
}

func featGoroutines(g *Gen) {
	p := g.lib()
	n := g.names(p, "job=type,u", "id=field,u", "val=field,u", "Fan=func,E", "worker=func,u", "Safe=type,E", "mu=field,u", "n=field,u", "Inc=emethod,E", "Val=emethod,E")
	f := g.newFile(p, "gor")
	f.std("sync")
	f.add(`
type «.job» struct{ «.id», «.val» int }

type «.Safe» struct {
	«.mu» sync.Mutex
	«.n»  int
}

func (s *«.Safe») «.Inc»(d int) { s.«.mu».Lock(); s.«.n» += d; s.«.mu».Unlock() }
func (s *«.Safe») «.Val»() int  { s.«.mu».Lock(); defer s.«.mu».Unlock(); return s.«.n» }

//go:noinline
func «.worker»(in <-chan «.job», out chan<- «.job», wg *sync.WaitGroup) {
	defer wg.Done()
	for j := range in {
		j.«.val» = j.«.val»*j.«.val» + j.«.id»
		out <- j
	}
}

//go:noinline
func «.Fan»(n, workers int) (sum int, count int) {
	in, out := make(chan «.job»), make(chan «.job», n)
	var wg sync.WaitGroup
	for w := 0; w < workers; w++ {
		wg.Add(1)
		go «.worker»(in, out, &wg)
	}
	for i := 0; i < n; i++ {
		in <- «.job»{«.id»: i, «.val»: i + 1}
	}
	close(in)
	wg.Wait()
	close(out)
	for j := range out {
		sum += j.«.val»
		count++
	}
	return
}
`, n)
	mf, fn := g.mainFeat("gor")
	mf.std("fmt", "sync")
	q := mf.use(p, g.R)
	mf.add(`
func «.fn»(args []string) {
	sum, count := «.q»«.Fan»(20+len(args), 4)
	var s «.q»«.Safe»
	var wg sync.WaitGroup
	for i := 1; i <= 8; i++ {
		wg.Add(1)
		go func(d int) { defer wg.Done(); s.«.Inc»(d) }(i)
	}
	wg.Wait()
	done := make(chan int, 1)
	select {
	case done <- s.«.Val»():
	default:
	}
	fmt.Println("gor", sum, count, <-done)
}
`, d(n, map[string]string{"fn": fn, "q": q}))
}

func featErrors(g *Gen) {
	p := g.lib()
	n := g.names(p, "MyErr=type,E", "Code=field,E", "ErrSentinel=var,E", "Do=func,E", "Guard=func,E", "must=func,u", "wrap=type,u", "inner=field,u")
	f := g.newFile(p, "errs")
	f.std("errors", "fmt")
	f.add(`
type «.MyErr» struct{ «.Code» int }

func (e *«.MyErr») Error() string { return fmt.Sprintf("myerr %d", e.«.Code») }

var «.ErrSentinel» = errors.New("sentinel")

type «.wrap» struct{ «.inner» error }

func (w «.wrap») Error() string { return "wrap(" + w.«.inner».Error() + ")" }
func (w «.wrap») Unwrap() error { return w.«.inner» }

//go:noinline
func «.Do»(v int) error {
	switch v % 3 {
	case 0:
		return «.wrap»{«.inner»: &«.MyErr»{«.Code»: v}}
	case 1:
		return fmt.Errorf("ctx: %w", «.ErrSentinel»)
	}
	return nil
}

//go:noinline
func «.must»(v int) int {
	if v%2 == 0 {
		panic(&«.MyErr»{«.Code»: v})
	}
	var m map[string]int
	if v%5 == 0 {
		m["x"] = 1 // nil map write: runtime error
	}
	return v
}

//go:noinline
func «.Guard»(v int) (res int, err error) {
	defer func() {
		if r := recover(); r != nil {
			switch e := r.(type) {
			case *«.MyErr»:
				err = e
			case error:
				err = errors.New("runtime:" + e.Error())
			}
			res = -1
		}
	}()
	return «.must»(v), nil
}
`, n)
	mf, fn := g.mainFeat("errs")
	mf.std("fmt", "errors")
	q := mf.use(p, g.R)
	mf.add(`
func «.fn»(args []string) {
	for v := len(args); v < len(args)+6; v++ {
		err := «.q»«.Do»(v)
		var me *«.q»«.MyErr»
		code := -1
		if errors.As(err, &me) {
			code = me.«.Code»
		}
		r, gerr := «.q»«.Guard»(v)
		fmt.Println("errs", v, err, errors.Is(err, «.q»«.ErrSentinel»), code, r, gerr)
	}
}
`, d(n, map[string]string{"fn": fn, "q": q}))
}

// featMethodStructParam: exported methods that take named structs by value, by pointer, in
// slices and as results, in a package that (transitively) imports reflect. None of these types
// reaches reflection, so every name must be obfuscated.
func featMethodStructParam(g *Gen) {
	p := g.lib()
	n := g.names(p, "Order=type,E", "Ident=field,u", "Amount=field,E", "Detail=type,E", "Code=field,E", "note=field,u", "DetailF=field,E",
		"Ledger=type,E", "total=field,u", "Post=emethod,E", "PostAll=emethod,E", "PostPtr=emethod,E", "Last=emethod,E", "NewOrder=func,E", "Sink=var,E")
	f := g.newFile(p, "methparam")
	f.std("fmt")
	f.add(`
type «.Detail» struct {
	«.Code» int
	«.note» string
}

type «.Order» struct {
	«.Ident»   int
	«.Amount»  int
	«.DetailF» «.Detail»
}

type «.Ledger» struct{ «.total» int }

var «.Sink» any = «.Order»{}

//go:noinline
func «.NewOrder»(id, amount int) «.Order» {
	return «.Order»{«.Ident»: id, «.Amount»: amount, «.DetailF»: «.Detail»{«.Code»: id * 2, «.note»: fmt.Sprint("n", id)}}
}

// an exported method with a named struct passed by value
//
//go:noinline
func (l *«.Ledger») «.Post»(o «.Order») int {
	l.«.total» += o.«.Amount» + o.«.DetailF».«.Code» + len(o.«.DetailF».«.note»)
	return l.«.total»
}

//go:noinline
func (l *«.Ledger») «.PostPtr»(o *«.Order», d «.Detail») int { return l.«.Post»(*o) + d.«.Code» }

//go:noinline
func (l *«.Ledger») «.PostAll»(os []«.Order», extra [2]«.Detail») int {
	for _, o := range os {
		l.«.Post»(o)
	}
	return l.«.total» + extra[1].«.Code»
}

//go:noinline
func (l «.Ledger») «.Last»() «.Order» { return «.NewOrder»(l.«.total», 1) }
`, n)
	mf, fn := g.mainFeat("methparam")
	mf.std("fmt")
	q := mf.use(p, g.R)
	mf.add(`
func «.fn»(args []string) {
	var l «.q»«.Ledger»
	o := «.q»«.NewOrder»(len(args)+1, 20)
	a := l.«.Post»(o)
	b := l.«.PostPtr»(&o, «.q»«.Detail»{«.Code»: 3})
	c := l.«.PostAll»([]«.q»«.Order»{o, o}, [2]«.q»«.Detail»{})
	fmt.Println("methparam", a, b, c, l.«.Last»().«.Amount», «.q»«.Sink» != nil)
}
`, d(n, map[string]string{"fn": fn, "q": q}))
}

// featSameNames: identifiers that collide within one package in different namespaces: two
// structs with equally named fields, a package-level function, a method and a variable of a
// nested scope with the same name. Every one of them has its own obfuscated name.
func featSameNames(g *Gen) {
	p := g.lib()
	n := g.names(p, "A=type,E", "B=type,E", "C=type,E", "Shared=field,E", "Other=field,E", "OnlyB=field,E", "MkA=func,E", "MkB=func,E", "Sink=var,E", "shared2=field,u")
	f := g.newFile(p, "samenames")
	f.add(`
type «.A» struct {
	«.Shared»  int
	«.Other»   string
	«.shared2» int
}

type «.B» struct {
	«.Shared»  string
	«.Other»   int
	«.OnlyB»   bool
	«.shared2» string
}

var «.Sink» any = []any{«.A»{}, «.B»{}}

// a package-level function named like the fields
//
//go:noinline
func «.Shared»(v int) int { return v + 1 + «.C»{«.Other»: v}.«.shared2»() }

type «.C» struct{ «.Other» int }

// an unexported method named like the unexported fields (an exported one would legitimately
// keep its name, and with it the field marker, in the binary)
//
//go:noinline
func (c «.C») «.shared2»() int { return c.«.Other» * 2 }

//go:noinline
func «.MkA»(v int) «.A» { return «.A»{«.Shared»: «.Shared»(v), «.Other»: "a", «.shared2»: v} }

//go:noinline
func «.MkB»(v int) «.B» { return «.B»{«.Shared»: "b", «.Other»: v, «.OnlyB»: v%2 == 0, «.shared2»: "s"} }
`, n)
	mf, fn := g.mainFeat("samenames")
	mf.std("fmt")
	q := mf.use(p, g.R)
	mf.add(`
func «.fn»(args []string) {
	a, b := «.q»«.MkA»(len(args)), «.q»«.MkB»(len(args)+2)
	fmt.Println("samenames", a.«.Shared», a.«.Other», b.«.Shared», b.«.Other», b.«.OnlyB», «.q»«.Shared»(5))
}
`, d(n, map[string]string{"fn": fn, "q": q}))
}

func featTests(g *Gen) {
	p := g.lib()
	g.HasTests = true
	n := g.names(p, "Double=func,E", "half=func,u", "Half=func,E")
	f := g.newFile(p, "tested")
	f.add(`
//go:noinline
func «.Double»(v int) int { return v * 2 }

//go:noinline
func «.half»(v int) int { return v / 2 }

func «.Half»(v int) int { return «.half»(v) }
`, n)
	// internal test (same package), with TestMain and a helper type
	tn := g.names(p, "helper=func,u", "tcase=type,u", "in=field,u", "want=field,u")
	tf := p.file("zq" + randLower(g.R, 6) + "int_test.go")
	tf.std("testing", "os", "fmt")
	tf.add(`
type «.tcase» struct{ «.in», «.want» int }

func «.helper»(t *testing.T, c «.tcase») {
	t.Helper()
	if got := «.half»(c.«.in»); got != c.«.want» {
		t.Errorf("half(%d) = %d, want %d", c.«.in», got, c.«.want»)
	}
}

func TestMain(m *testing.M) {
	fmt.Println("testmain-start")
	code := m.Run()
	fmt.Println("testmain-end", code)
	os.Exit(code)
}

func TestHalfInternal(t *testing.T) {
	for _, c := range []«.tcase»{{4, 2}, {9, 4}, {0, 0}} {
		«.helper»(t, c)
	}
}

func TestSubtests(t *testing.T) {
	for _, name := range []string{"a", "b"} {
		t.Run(name, func(t *testing.T) {
			if «.Double»(len(name)) != 2 {
				t.Fatal("bad")
			}
		})
	}
}

func TestSkipped(t *testing.T) { t.Skip("skipped on purpose") }
`, d(n, tn))
	// external test package
	xf := p.file("zq" + randLower(g.R, 6) + "ext_test.go")
	xf.pkg = &GPkg{Name: p.Name + "_test", Path: p.Path}
	xf.std("testing")
	xf.imports[p.Path] = ""
	xf.add(`
func TestDoubleExternal(t *testing.T) {
	if got := «.q».«.Double»(21); got != 42 {
		t.Fatalf("got %d", got)
	}
	if «.q».«.Half»(10) != 5 {
		t.Fatal("half")
	}
}

func Example() {
	println(«.q».«.Double»(1))
}
`, d(n, map[string]string{"q": p.Name}))
	mf, fn := g.mainFeat("tested")
	mf.std("fmt")
	q := mf.use(p, g.R)
	mf.add(`
func «.fn»(args []string) {
	fmt.Println("tested", «.q»«.Double»(len(args)+1), «.q»«.Half»(9))
}
`, d(n, map[string]string{"fn": fn, "q": q}))
}

// featTestDeps: a package under test (internal test file, so it is recompiled for its test
// binary) whose external test imports a second package that imports the package under test:
// that second package is recompiled for the test as well ("dep [foo.test]").
func featTestDeps(g *Gen) {
	lo, hi := g.twoLibs()
	g.HasTests = true
	n1 := g.names(lo, "Base=func,E", "hidden=func,u", "Hook=var,E")
	f1 := g.newFile(lo, "tdbase")
	f1.add(`
//go:noinline
func «.Base»(v int) int { return v*3 + «.hidden»() }

//go:noinline
func «.hidden»() int { return 1 }
`, n1)
	tag := randAlnum(g.R, 5)
	tf := lo.file("zq" + randLower(g.R, 6) + "tdint_test.go")
	tf.std("testing")
	tf.add(`
// exported only while testing
var «.Hook» = «.hidden»

func TestTd`+tag+`Internal(t *testing.T) {
	if «.hidden»() != 1 {
		t.Fatal("hidden")
	}
}
`, n1)
	n2 := g.names(hi, "Twice=func,E")
	f2 := g.newFile(hi, "tddep")
	q1 := f2.use(lo, g.R)
	f2.add(`
//go:noinline
func «.Twice»(v int) int { return «.q1»«.Base»(v) * 2 }
`, d(n1, n2, map[string]string{"q1": q1}))
	xf := lo.file("zq" + randLower(g.R, 6) + "tdext_test.go")
	xf.pkg = &GPkg{Name: lo.Name + "_test", Path: lo.Path}
	xf.std("testing")
	xf.imports[lo.Path] = ""
	xf.imports[hi.Path] = ""
	xf.add(`
func TestTd`+tag+`ThroughDependant(t *testing.T) {
	if got, want := «.qh».«.Twice»(2), 2*«.ql».«.Base»(2); got != want {
		t.Fatalf("got %d want %d", got, want)
	}
	if «.ql».«.Hook»() != 1 {
		t.Fatal("hook")
	}
}
`, d(n1, n2, map[string]string{"ql": lo.Name, "qh": hi.Name}))
	mf, fn := g.mainFeat("tddep")
	mf.std("fmt")
	qa, qb := mf.use(lo, g.R), mf.use(hi, g.R)
	mf.add(`
func «.fn»(args []string) {
	fmt.Println("tddep", «.qa»«.Base»(len(args)), «.qb»«.Twice»(len(args)+1))
}
`, d(n1, n2, map[string]string{"fn": fn, "qa": qa, "qb": qb}))
}
