package main

import (
	"encoding/json"
	"fmt"
	"os"
	"path/filepath"
	"strings"
	"sync"
	"time"
)

func init() { register("C08", "exploration", checkC08) }

// linesByID maps "S07 ..." output lines to their case id.
func linesByID(out []byte) map[string]string {
	m := map[string]string{}
	for _, l := range lines(out) {
		id, rest, _ := strings.Cut(l, " ")
		m[id] = rest
	}
	return m
}

func checkC08(c *Ctx) {
	c.SetRule("programs of 12-16 reflection cases; each case has its own fresh struct types (shapes: flat, nested, embedded, slice/map/array/pointer collections, anonymous struct field, generic instantiation, alias, unexported fields; " +
		"declared in main or in a dependency) and sends a value along one flow (direct TypeOf, ValueOf, helper, 3-deep helper chain, local chain, pointer, slice, map value, variadic, stored in an `any` variable, field of a holder struct, " +
		"json.Marshal, json round trip, fmt %T/%+v, FieldByName lookups, interface-typed parameter, generic helper chain, TypeOf inside a generic function) to a reflecting sink in another package. " +
		"Oracle: per-case output line equals the regular build's line (package qualifiers stripped: only type and field names are promised). Every program is re-obfuscated R times (comment-only perturbation => fresh action IDs and map orders); " +
		"a case holds only if all R builds agree with the regular build. The injected runtime replacer is compared with strings.NewReplacer on generated pair tables. " +
		"distinct_nontrivial = distinct (shape, flow, declaring package, config) cases whose regular output contains >=1 user type/field name.")
	c.Assume("package qualifiers in Type.String() are not promised (the repository's own tests strip them)", "fmt verbs are a sink because fmt is built on reflect")
	g := buildGarble("", false)
	cfgs := []Config{K0}
	nprog, ncases, reps := 3, 14, 4
	if !c.Quick() {
		cfgs = []Config{K0, K3, K5}
		nprog, ncases, reps = 16, 16, 10
	}
	pool := warmPool(g, false, cfgs...)
	flows := []string{}
	for _, f := range reflFlows {
		flows = append(flows, f)
	}
	agree := map[string][2]int{} // key -> [held, total]
	var amu sync.Mutex
	parallel(nprog*len(cfgs), 6, func(k int) {
		i, cfg := k/len(cfgs), cfgs[k%len(cfgs)]
		rp := genReflProg(subRand(c.Seed, "c08", c.Tier, i), ncases, flows, nil)
		w := materialize(rp.Prog, fmt.Sprintf("c08p%d", k))
		defer w.cleanup()
		pbin := filepath.Join(w.Root, "plain.bin")
		if !plainReference(c, w, pbin, false) {
			return
		}
		pr := runBin(pbin, nil, nil, time.Minute)
		if !pr.OK() {
			c.Inconclusive("generator bug: reflection program fails when built regularly:\n" + pr.String())
			return
		}
		want := linesByID(pr.Out)
		if k == 0 {
			c.Sample(map[string]any{"case": rp.Cases[0], "regular_output": want[rp.Cases[0].ID]})
			c.Sample(map[string]any{"case": rp.Cases[1], "regular_output": want[rp.Cases[1].ID]})
		}
		bad := map[string]string{} // case id -> first wrong output
		for rep := 0; rep < reps; rep++ {
			for _, pf := range []string{"zz_perturb.go", "zqrf/zz_perturb.go", "zqty/zz_perturb.go"} {
				pkg := "main"
				if strings.Contains(pf, "/") {
					pkg = filepath.Dir(pf)
				}
				must(os.WriteFile(filepath.Join(w.Dir, pf), []byte(fmt.Sprintf("package %s\n\n// repetition %d\n", pkg, rep)), 0o644))
			}
			gbin := filepath.Join(w.Root, fmt.Sprintf("garbled-%d.bin", rep))
			gr := w.garbleBuild(g, pool.Box(filepath.Join(w.Root, "tmp")), cfg, gbin, nil)
			if gr.TimedOut {
				c.Inconclusive("garble build watchdog fired")
				return
			}
			if !gr.OK() {
				c.Eval("")
				c.Violate("build-fails", fmt.Sprintf("garble %v build fails on a reflection program\n%s", cfg.GFlags, gr), w.replayFiles(map[string]string{"config.txt": cfg.Key()}))
				return
			}
			or := runBin(gbin, nil, nil, time.Minute)
			got := linesByID(or.Out)
			os.Remove(gbin)
			for _, rc := range rp.Cases {
				sig := ""
				if strings.Contains(want[rc.ID], "Zq") {
					sig = rc.Key + "|" + cfg.Name
				}
				c.Eval(sig)
				if got[rc.ID] != want[rc.ID] {
					if _, seen := bad[rc.ID]; !seen {
						bad[rc.ID] = fmt.Sprintf("repetition %d: got %q", rep, clip([]byte(got[rc.ID]), 400))
					}
				}
			}
			if or.RC != pr.RC {
				c.Violate("exit-status", fmt.Sprintf("reflection program exits with %d, regular build %d\n%s", or.RC, pr.RC, clip(or.Err, 2000)), w.replayFiles(map[string]string{"config.txt": cfg.Key()}))
			}
		}
		amu.Lock()
		for _, rc := range rp.Cases {
			a := agree[rc.Key]
			a[1]++
			if _, isBad := bad[rc.ID]; !isBad {
				a[0]++
			}
			agree[rc.Key] = a
		}
		amu.Unlock()
		for _, rc := range rp.Cases {
			if why, isBad := bad[rc.ID]; isBad {
				c.Violate("reflect/"+rc.Shape+"/"+rc.Flow, fmt.Sprintf("%s: case %s (shape %s, flow %s, declared in %s) prints different names than the regular build in >=1 of %d re-obfuscations: want %q; %s",
					cfg.Name, rc.ID, rc.Shape, rc.Flow, rc.Decl, reps, clip([]byte(want[rc.ID]), 400), why), w.replayFiles(map[string]string{"config.txt": cfg.Key(), "case.json": jsonStr(rc)}))
			}
		}
	})
	flat := map[string]string{}
	for k, v := range agree {
		flat[k] = fmt.Sprintf("%d/%d", v[0], v[1])
	}
	c.Extra("cases_agreeing_in_all_repetitions", flat)
	c.Extra("repetitions_per_program", reps)

	// Part 3: the injected replacer.
	out := filepath.Join(scratch("c08"), "replacer.json")
	r := runDriver(".", "c08_driver_test.go", "^TestVerifC08Replacer$", []string{
		"VERIF_OUT=" + out, fmt.Sprintf("VERIF_SEED=%d", c.Seed), fmt.Sprintf("VERIF_TABLES_N=%d", c.pick(150, 1500)), fmt.Sprintf("VERIF_INPUTS_N=%d", c.pick(40, 60)),
	}, 20*time.Minute, "")
	if data, err := os.ReadFile(out); err != nil {
		if r.TimedOut {
			c.Inconclusive("replacer driver watchdog fired")
		} else {
			c.Violate("driver/crash", "in-process replacer driver failed:\n"+r.String(), nil)
		}
	} else {
		var rep struct {
			Tables, Inputs int
			Replaced       int            `json:"inputs_with_replacement"`
			KeyClasses     map[string]int `json:"key_classes"`
			Mismatches     []map[string]any
		}
		must(json.Unmarshal(data, &rep))
		c.EvalN(rep.Inputs)
		c.Count("replacer.tables", rep.Tables)
		c.Count("replacer.inputs", rep.Inputs)
		c.Count("replacer.inputs_with_replacement", rep.Replaced)
		c.Extra("replacer_key_classes", rep.KeyClasses)
		for _, m := range rep.Mismatches {
			c.Violate("replacer/mismatch", "the injected replacer disagrees with strings.NewReplacer: "+clip([]byte(jsonStr(m)), 1500), map[string]string{"case.json": jsonStr(m)})
		}
	}
}
