package main

import (
	"bytes"
	"fmt"
	"go/ast"
	"go/parser"
	"go/token"
	"go/types"
	"os"
	"path/filepath"
	"sort"
	"strconv"
	"strings"
)

// Identifiers that garble's own source mentions as string literals (names it special-cases for
// some standard-library package) plus common Go API names. A user package that declares objects
// with exactly these names must still have them obfuscated: only the import path decides.
var commonGoNames = []string{"String", "Error", "Name", "Type", "Value", "Len", "Field", "Method", "MethodByName", "Kind", "Elem", "Close", "Read", "Write", "Marshal", "Unmarshal",
	"Sprintf", "Printf", "New", "Open", "Get", "Set", "Do", "ID", "Key", "Index", "Call", "Func", "Interface", "Struct", "Map", "Slice", "Pointer", "Size", "Align", "Lock", "Unlock"}

// specialNames collects identifier-like string literals from garble's non-test sources.
func specialNames(repo string) []string {
	set := map[string]bool{}
	for _, n := range commonGoNames {
		set[n] = true
	}
	var files []string
	for _, pat := range []string{"*.go", "internal/*/*.go"} {
		m, _ := filepath.Glob(filepath.Join(repo, pat))
		files = append(files, m...)
	}
	fset := token.NewFileSet()
	for _, f := range files {
		if strings.HasSuffix(f, "_test.go") || strings.Contains(f, "verifhook") || strings.HasSuffix(f, "_gen.go") || strings.Contains(filepath.Base(f), "go_std_tables") {
			continue
		}
		af, err := parser.ParseFile(fset, f, nil, parser.SkipObjectResolution)
		if err != nil {
			continue
		}
		ast.Inspect(af, func(n ast.Node) bool {
			if _, ok := n.(*ast.ImportSpec); ok {
				return false
			}
			if bl, ok := n.(*ast.BasicLit); ok && bl.Kind == token.STRING {
				if s, err := strconv.Unquote(bl.Value); err == nil {
					set[s] = true
				}
			}
			return true
		})
	}
	var out []string
	for s := range set {
		if len(s) < 2 || len(s) > 24 || !token.IsIdentifier(s) || token.IsKeyword(s) || types.Universe.Lookup(s) != nil {
			continue
		}
		if c := s[0]; !(c >= 'a' && c <= 'z' || c >= 'A' && c <= 'Z') {
			continue
		}
		if s == "main" || s == "init" || strings.HasPrefix(s, "Zq") || strings.HasPrefix(s, "zq") {
			continue
		}
		out = append(out, s)
	}
	sort.Strings(out)
	if len(out) > 160 {
		// keep the list bounded but deterministic: every k-th name, always including the common ones
		keep := map[string]bool{}
		for _, n := range commonGoNames {
			keep[n] = true
		}
		var sel []string
		step := (len(out) + 159) / 160
		for i, s := range out {
			if i%step == 0 || keep[s] {
				sel = append(sel, s)
			}
		}
		out = sel
	}
	return out
}

const spMod = "zqsp.example.com/s"

// genSpecialProg declares every name once as a type, a function, a struct field and a variable,
// in four reflection-free packages; functions are noinline and types are boxed into interfaces.
func genSpecialProg(names []string) *Prog {
	var t, f, d, v strings.Builder
	t.WriteString("package zqspt\n\n")
	f.WriteString("package zqspf\n\n")
	d.WriteString("package zqspd\n\n")
	v.WriteString("package zqspv\n\n")
	var tAll, fAll, dAll, vAll strings.Builder
	for i, n := range names {
		fmt.Fprintf(&t, "type %s struct{ ZqT%d int }\n\n", n, i)
		fmt.Fprintf(&tAll, "\t%s{ZqT%d: %d},\n", n, i, i)
		fmt.Fprintf(&f, "//go:noinline\nfunc %s(v int) int { return v + %d }\n\n", n, i)
		fmt.Fprintf(&fAll, "\ts += %s(v)\n", n)
		fmt.Fprintf(&d, "type ZqHolder%d struct {\n\t%s int\n\tZqPad%d string\n}\n\n", i, n, i)
		fmt.Fprintf(&dAll, "\tZqHolder%d{%s: %d},\n", i, n, i)
		fmt.Fprintf(&v, "var %s = %d\n\n", n, i)
		fmt.Fprintf(&vAll, "\ts += %s\n", n)
	}
	fmt.Fprintf(&t, "var ZqAll = []any{\n%s}\n", tAll.String())
	fmt.Fprintf(&f, "//go:noinline\nfunc ZqCallAll(v int) int {\n\ts := 0\n%s\treturn s\n}\n", fAll.String())
	fmt.Fprintf(&d, "var ZqAll = []any{\n%s}\n", dAll.String())
	fmt.Fprintf(&v, "//go:noinline\nfunc ZqSum() int {\n\ts := 0\n%s\treturn s\n}\n", vAll.String())
	main := "package main\n\nimport (\n\t\"fmt\"\n\t\"os\"\n\n\t\"" + spMod + "/zqspd\"\n\t\"" + spMod + "/zqspf\"\n\t\"" + spMod + "/zqspt\"\n\t\"" + spMod + "/zqspv\"\n)\n\n" +
		"func main() {\n\tfmt.Println(len(zqspt.ZqAll), zqspf.ZqCallAll(len(os.Args)), len(zqspd.ZqAll), zqspv.ZqSum())\n}\n"
	return &Prog{Module: spMod, Files: map[string]string{
		"go.mod": "module " + spMod + "\n\ngo 1.26\n", "main.go": main,
		"zqspt/t.go": t.String(), "zqspf/f.go": f.String(), "zqspd/d.go": d.String(), "zqspv/v.go": v.String(),
	}}
}

// nameRecordIn reports whether data holds a runtime name record (flag byte <= 7, one-byte length, text).
func nameRecordIn(data []byte, text string) bool {
	if len(text) > 127 {
		return false
	}
	pat := append([]byte{byte(len(text))}, text...)
	for off := 0; ; {
		i := bytes.Index(data[off:], pat)
		if i < 0 {
			return false
		}
		at := off + i
		if at > 0 && data[at-1] <= 7 {
			return true
		}
		off = at + 1
	}
}

// c02SpecialNames: objects of user packages named like identifiers garble special-cases elsewhere.
func c02SpecialNames(c *Ctx, g *GarbleBin, pool *Pool, cfgs []Config) {
	names := specialNames(repoRoot)
	if len(names) < 20 {
		c.Inconclusive("special-name scenario: too few candidate names found in garble's sources")
		return
	}
	p := genSpecialProg(names)
	w := materialize(p, "c02special")
	defer w.cleanup()
	plainBin := filepath.Join(w.Root, "plain-stripped.bin")
	if !plainReference(c, w, plainBin, true) {
		return
	}
	plainData, _ := os.ReadFile(plainBin)
	// scanner sensitivity on the regular binary: function symbols, type strings and field records are found there
	sens := 0
	for _, n := range names {
		if bytes.Contains(plainData, []byte(spMod+"/zqspf."+n+"\x00")) && nameRecordIn(plainData, "*zqspt."+n) && nameRecordIn(plainData, n) {
			sens++
		}
	}
	c.Count("special_names", len(names))
	c.Count("special_names_observable_in_regular_binary", sens)
	if sens < len(names)/2 {
		c.Inconclusive(fmt.Sprintf("special-name scenario: only %d of %d names are observable in the regular stripped binary", sens, len(names)))
		return
	}
	for _, cfg := range cfgs {
		nm, r, bin := tracedBuild(c, g, pool, w, cfg, "sp-"+cfg.Name)
		if r.TimedOut {
			c.Inconclusive("garble build watchdog fired")
			continue
		}
		if !r.OK() {
			c.Eval("")
			c.Violate("build-fails/special-names", fmt.Sprintf("%s: garble build fails on a program whose objects are named like identifiers garble special-cases in the standard library\n%s", cfg.Name, clip(r.Err, 1500)), w.replayFiles(map[string]string{"config.txt": cfg.Key()}))
			continue
		}
		if nm == nil {
			continue
		}
		data, _ := os.ReadFile(bin)
		for _, k := range sortedKeys(nm.Entries) {
			e := nm.Entries[k]
			if !e.Def || !strings.HasPrefix(e.Pkg, spMod+"/") || strings.HasPrefix(e.Orig, "Zq") {
				continue
			}
			var inBinary bool
			switch e.Kind {
			case "func":
				obfPath := nm.ImportPath[e.Pkg]
				inBinary = obfPath != "" && bytes.Contains(data, []byte(obfPath+"."+e.Orig+"\x00"))
			case "type":
				obfName := nm.PkgName[e.Pkg]
				inBinary = obfName != "" && nameRecordIn(data, "*"+obfName+"."+e.Orig)
			case "field":
				inBinary = nameRecordIn(data, e.Orig)
			default:
				continue // variable names never reach a stripped binary
			}
			c.Eval("special|" + cfg.Name + "|" + e.Kind + "|" + e.Orig)
			if e.Obf == e.Orig && inBinary {
				c.Violate("name-leak/special-name/"+e.Kind, fmt.Sprintf("%s: the %s %q of user package %s keeps its name: the source handed to the compiler declares it unchanged and the binary contains it (the name is one garble special-cases for a standard-library package)", cfg.Name, e.Kind, e.Orig, e.Pkg),
					w.replayFiles(map[string]string{"config.txt": cfg.Key()}))
			}
		}
	}
}
