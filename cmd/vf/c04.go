package main

import (
	"fmt"
	"path/filepath"
	"regexp"
	"strings"
	"time"
)

func init() { register("C04", "exploration", checkC04) }

var (
	rxPCOffset   = regexp.MustCompile(` \+0x[0-9a-f]+$`)
	rxGoroutine  = regexp.MustCompile(`goroutine \d+`)
	rxFrameArgs  = regexp.MustCompile(`\((0x[0-9a-f]+|\{|\.\.\.|\?).*\)$`)
	rxFramePlain = regexp.MustCompile(`\(\)$`)
)

type trFrame struct {
	Fn  string // function line, arguments and pc offsets stripped
	Pos string // "path/file.go:line"
}

// parseTrace extracts the frames (function line + tab-indented position line) and the
// remaining text lines of a stack dump.
func parseTrace(s string) (frames []trFrame, other []string) {
	ls := strings.Split(strings.ReplaceAll(s, "\r\n", "\n"), "\n")
	for i := 0; i < len(ls); i++ {
		l := ls[i]
		if i+1 < len(ls) && strings.HasPrefix(ls[i+1], "\t") && !strings.HasPrefix(l, "\t") && l != "" {
			fn := rxGoroutine.ReplaceAllString(l, "goroutine N")
			fn = rxFrameArgs.ReplaceAllString(fn, "(...)")
			fn = rxFramePlain.ReplaceAllString(fn, "(...)")
			pos := strings.TrimSpace(rxPCOffset.ReplaceAllString(ls[i+1], ""))
			frames = append(frames, trFrame{fn, pos})
			i++
			continue
		}
		if l != "" {
			other = append(other, rxGoroutine.ReplaceAllString(l, "goroutine N"))
		}
	}
	return
}

// programFrames keeps the frames of the program's own packages.
func programFrames(frames []trFrame, mod string) []trFrame {
	var out []trFrame
	for _, f := range frames {
		fn := strings.TrimPrefix(f.Fn, "created by ")
		if strings.HasPrefix(fn, "main.") || strings.HasPrefix(fn, mod+"/") {
			out = append(out, f)
		}
	}
	return out
}

func checkC04(c *Ctx) {
	c.SetRule("call-chain programs (3-7 frames per chain over functions, value/pointer methods, generic functions and methods, closures in variables, nested closures, deferred calls, goroutines; three packages, two files each) end in a panic, debug.PrintStack or a runtime.Callers dump. " +
		"The obfuscated program's stderr is embedded in surrounding text (LF, CRLF, no final newline) and piped through `garble reverse` with the build's flags; after normalising values that legitimately differ (pc offsets, goroutine ids, argument words) " +
		"every frame of the program's packages must equal the frame printed by the `go build -trimpath` binary: function (package path, receiver, name) and call-site position importpath/file.go:line; frames that run deferred calls compare the file only (a return site is not a call site). " +
		"Text without obfuscated tokens must pass through byte for byte with exit status 1. distinct_nontrivial = distinct (chain kinds, terminal, config, line-ending) cases with >=1 obfuscated name and position in the obfuscated trace.")
	c.Assume("frames inside the runtime (never obfuscated) are not compared", "only call sites carry positions; faulting non-call instructions are not generated")
	g := buildGarble("", false)
	cfgs := []Config{K0, K2}
	nprog := 4
	if !c.Quick() {
		cfgs = []Config{K0, K2, K3, K0.with("K0tags", nil, nil, []string{"-tags=zqsometag"})}
		nprog = 40
	}
	pool := warmPool(g, false, cfgs...)
	kindsSeen := map[string]int{}
	parallel(nprog*len(cfgs), 6, func(k int) {
		i, cfg := k/len(cfgs), cfgs[k%len(cfgs)]
		cp := genChainProg(subRand(c.Seed, "c04", c.Tier, i), 3, chainKinds)
		w := materialize(cp.Prog, fmt.Sprintf("c04p%d", k))
		defer w.cleanup()
		pbin := filepath.Join(w.Root, "plain.bin")
		if !plainReference(c, w, pbin, false) {
			return
		}
		gbin := filepath.Join(w.Root, "garbled.bin")
		gr := w.garbleBuild(g, pool.Box(filepath.Join(w.Root, "tmp")), cfg, gbin, nil)
		if gr.TimedOut {
			c.Inconclusive("garble build watchdog fired")
			return
		}
		if !gr.OK() {
			c.Inconclusive("garble build failed (judged by C01): " + firstLine(string(gr.Err)))
			return
		}
		for ci, chain := range cp.Chains {
			arg := []string{fmt.Sprint(ci)}
			var env []string
			pr := runBin(pbin, arg, env, time.Minute)
			or := runBin(gbin, arg, env, time.Minute)
			if pr.TimedOut || or.TimedOut {
				c.Inconclusive("chain program timed out")
				continue
			}
			files := func(extra map[string]string) map[string]string {
				m := w.replayFiles(map[string]string{"config.txt": cfg.Key(), "chain.txt": fmt.Sprintf("chain %d terminal=%s kinds=%v\n", ci, chain.Terminal, chain.Kinds), "regular-stderr.txt": string(pr.Err), "garbled-stderr.txt": string(or.Err)})
				for k, v := range extra {
					m[k] = v
				}
				return m
			}
			// Variation of the surrounding text and line endings.
			variant := (i + ci) % 3
			input := "zq unrelated line before\n" + string(or.Err) + "zq unrelated line after 12345\n"
			switch variant {
			case 1:
				input = strings.ReplaceAll(input, "\n", "\r\n")
			case 2:
				input = strings.TrimSuffix(input, "\n")
			}
			rr := Run(Cmd{Dir: w.Dir, Env: pool.Box(filepath.Join(w.Root, "tmp-rev")).Env(cfg.Env...), Argv: garbleArgv(g, cfg, "reverse", "."), Stdin: []byte(input), Timeout: 10 * time.Minute})
			if rr.TimedOut {
				c.Inconclusive("garble reverse watchdog fired")
				continue
			}
			gotFrames, gotOther := parseTrace(string(rr.Out))
			wantFrames, _ := parseTrace(string(pr.Err))
			obfFrames, _ := parseTrace(string(or.Err))
			gf, wf := programFrames(gotFrames, cp.Prog.Module), programFrames(wantFrames, cp.Prog.Module)
			nontrivial := len(programFrames(obfFrames, cp.Prog.Module)) < len(obfFrames) && len(wf) > 0
			sig := ""
			if nontrivial {
				sig = fmt.Sprintf("%s|%s|%s|v%d", strings.Join(chain.Kinds, ","), chain.Terminal, cfg.Name, variant)
			}
			c.Eval(sig)
			c.mu.Lock()
			for _, kd := range chain.Kinds {
				kindsSeen[kd]++
			}
			c.mu.Unlock()
			if rr.RC != 0 {
				c.Violate("reverse/exit-status", fmt.Sprintf("%s: garble reverse exits %d although the trace contains obfuscated names\n%s", cfg.Name, rr.RC, clip(rr.Err, 1500)), files(map[string]string{"reversed.txt": string(rr.Out)}))
				continue
			}
			// Surrounding text must pass through unchanged, with its line endings.
			wantFirst, wantLast := "zq unrelated line before", "zq unrelated line after 12345"
			outStr := string(rr.Out)
			nl := "\n"
			if variant == 1 {
				nl = "\r\n"
			}
			if !strings.HasPrefix(outStr, wantFirst+nl) || !(strings.HasSuffix(outStr, wantLast+nl) || variant == 2 && strings.HasSuffix(outStr, wantLast)) {
				c.Violate("reverse/passthrough-surrounding", fmt.Sprintf("%s: text around the trace is not passed through byte for byte (line-ending variant %d)", cfg.Name, variant), files(map[string]string{"reversed.txt": outStr, "input.txt": input}))
			}
			_ = gotOther
			if len(gf) != len(wf) {
				c.Violate("reverse/frame-count", fmt.Sprintf("%s: reversed trace has %d program frames, the -trimpath build prints %d (chain %v ending in %s)", cfg.Name, len(gf), len(wf), chain.Kinds, chain.Terminal), files(map[string]string{"reversed.txt": outStr}))
				continue
			}
			for j := range wf {
				want, got := wf[j], gf[j]
				// A frame running deferred calls sits at a return site: compare the file only.
				// (also a frame at the closing "}()" of an immediately invoked literal); the generator
				// marks such functions with "Zqnopos" in their name.
				maskLine := strings.Contains(want.Fn, "Zqnopos") && !strings.Contains(want.Fn, "Zqnopos.func")
				wp, gp := want.Pos, got.Pos
				if maskLine {
					wp, gp = wp[:strings.LastIndex(wp, ":")+1], gp[:strings.LastIndex(gp, ":")+1]
				}
				lit := ""
				if cfg.has("-literals") {
					lit = "+literals"
				}
				if want.Fn != got.Fn {
					c.Violate("reverse/name/"+frameKind(want.Fn)+lit, fmt.Sprintf("%s: frame %d function is %q after reverse, the -trimpath build prints %q", cfg.Name, j, got.Fn, want.Fn), files(map[string]string{"reversed.txt": outStr}))
				} else if wp != gp {
					c.Violate("reverse/position/"+frameKind(want.Fn)+lit, fmt.Sprintf("%s: frame %d (%s) position is %q after reverse, the -trimpath build prints %q", cfg.Name, j, want.Fn, got.Pos, want.Pos), files(map[string]string{"reversed.txt": outStr}))
				}
			}
			if k == 0 && ci == 0 {
				c.Sample(map[string]any{"chain": chain, "config": cfg.Key(), "obfuscated_first_frames": firstN(programOrAll(obfFrames), 3), "reversed_first_frames": firstN(gf, 3)})
			}
		}
		// Pass-through of text without anything obfuscated.
		plainText := "nothing obfuscated here\nmain.notAName()\n\t/some/file.go:12 +0x1d\r\nlast line without newline"
		rr := Run(Cmd{Dir: w.Dir, Env: pool.Box(filepath.Join(w.Root, "tmp-rev2")).Env(cfg.Env...), Argv: garbleArgv(g, cfg, "reverse", "."), Stdin: []byte(plainText), Timeout: 10 * time.Minute})
		c.Eval("passthrough|" + cfg.Name + fmt.Sprint(i))
		if !rr.TimedOut && (string(rr.Out) != plainText || rr.RC != 1) {
			c.Violate("reverse/passthrough", fmt.Sprintf("%s: text without obfuscated tokens came back changed or with exit status %d (want identical bytes and 1)", cfg.Name, rr.RC), w.replayFiles(map[string]string{"in.txt": plainText, "out.txt": string(rr.Out)}))
		}
	})
	c.Extra("frame_kinds_exercised", kindsSeen)

}

func frameKind(fn string) string {
	switch {
	case strings.HasPrefix(fn, "created by"):
		return "created-by"
	case strings.Contains(fn, "[...]"):
		return "generic"
	case strings.Contains(fn, ".func"):
		return "closure"
	case strings.Contains(fn, "(*"):
		return "ptrmethod"
	}
	return "func"
}

func firstN(f []trFrame, n int) []trFrame {
	if len(f) > n {
		return f[:n]
	}
	return f
}

func programOrAll(f []trFrame) []trFrame { return f }
