package main

import (
	"fmt"
	"math/rand"
	"regexp"
	"strings"
)

// ---------------------------------------------------------------------------
// Reflection program generator (C08): every shape instance has its own fresh
// types, so one instance reaching reflection cannot mask another.

type ReflCase struct {
	ID    string // line prefix, e.g. "S07"
	Shape string
	Flow  string
	Decl  string // main | dep
	Key   string // shape/flow/decl : stable class key
}

type ReflProg struct {
	Prog  *Prog
	Cases []ReflCase
}

const reflHelperPkg = `package zqrf

import (
	"encoding/json"
	"fmt"
	"reflect"
	"sort"
	"strings"
)

// Walk prints the unqualified type name and every reachable field name.
func Walk(t reflect.Type, depth int) string {
	if depth > 5 {
		return ""
	}
	name := t.Name()
	if i := strings.IndexByte(name, '['); i >= 0 {
		name = name[:i] + "[...]" // type arguments are walked through the fields
	}
	if name == "" {
		name = t.Kind().String()
	}
	s := name
	switch t.Kind() {
	case reflect.Struct:
		s += "{"
		for i := 0; i < t.NumField(); i++ {
			f := t.Field(i)
			s += f.Name + ":" + Walk(f.Type, depth+1) + ","
		}
		s += "}"
	case reflect.Pointer, reflect.Slice, reflect.Array, reflect.Map, reflect.Chan:
		s += "<" + Walk(t.Elem(), depth+1) + ">"
	}
	return s
}

func Names(v any) string { return Walk(reflect.TypeOf(v), 0) }

func ValueNames(v any) string {
	rv := reflect.ValueOf(v)
	for rv.Kind() == reflect.Pointer {
		rv = rv.Elem()
	}
	if rv.Kind() != reflect.Struct {
		return Walk(rv.Type(), 0)
	}
	var names []string
	for i := 0; i < rv.NumField(); i++ {
		names = append(names, rv.Type().Field(i).Name)
	}
	tn := rv.Type().Name()
	if i := strings.IndexByte(tn, '['); i >= 0 {
		tn = tn[:i] + "[...]" // type arguments carry package qualifiers, which are not promised
	}
	return tn + "/" + strings.Join(names, ",")
}

func JSON(v any) string {
	b, err := json.Marshal(v)
	if err != nil {
		return "err:" + err.Error()
	}
	return string(b)
}

// Roundtrip unmarshals data into ptr and marshals it again.
func Roundtrip(data string, ptr any) string {
	if err := json.Unmarshal([]byte(data), ptr); err != nil {
		return "err:" + err.Error()
	}
	return JSON(ptr)
}

// Fmt prints the value with field names and the type name without its package qualifier.
func Fmt(v any) string { return StripQual(fmt.Sprintf("%T", v)) + " " + fmt.Sprintf("%+v", v) }

// StripQual removes package qualifiers ("path/to/pkg.") in front of identifiers.
func StripQual(s string) string {
	var out, tok []byte
	flush := func() {
		if i := strings.LastIndexByte(string(tok), '.'); i >= 0 {
			tok = tok[i+1:]
		}
		out = append(out, tok...)
		tok = tok[:0]
	}
	for i := 0; i < len(s); i++ {
		ch := s[i]
		if ch == '_' || ch == '.' || ch == '/' || ch == '-' || ch >= '0' && ch <= '9' || ch >= 'a' && ch <= 'z' || ch >= 'A' && ch <= 'Z' {
			tok = append(tok, ch)
			continue
		}
		flush()
		out = append(out, ch)
	}
	flush()
	return string(out)
}

func Lookup(v any, names ...string) string {
	rv := reflect.ValueOf(v)
	for rv.Kind() == reflect.Pointer {
		rv = rv.Elem()
	}
	var out []string
	for _, n := range names {
		out = append(out, fmt.Sprint(n, "=", rv.FieldByName(n).IsValid()))
	}
	return strings.Join(out, " ")
}

func H1(v any) string { return H2(v) }
func H2(v any) string { return H3(v) }
func H3(v any) string { return Names(v) }

func Var(vs ...any) string {
	var out []string
	for _, v := range vs {
		out = append(out, Names(v))
	}
	sort.Strings(out)
	return strings.Join(out, "|")
}

func VarTail(n int, vs ...any) string { return fmt.Sprint(n) + Var(vs...) }

func G1[T any](v T) string { return G2(v) }
func G2[T any](v T) string { return Names(v) }

func GDirect[T any](v T) string { return Walk(reflect.TypeOf(v), 0) }

type Namer interface{ ZqNm() string }

func Iface(v Namer) string { return v.ZqNm() + Names(v) }
`

type reflShape struct {
	name string
	// decl renders the type declarations with prefix p (unique per instance) and
	// returns the value expression (relative to the declaring package: "T{}" form).
	decl func(p string, r *rand.Rand) (decls string, typeName string, valueExpr string, fields []string, jsonIn string)
}

func reflShapes() []reflShape {
	return []reflShape{
		{"flat", func(p string, r *rand.Rand) (string, string, string, []string, string) {
			return fmt.Sprintf("type %[1]sT struct {\n\t%[1]sA int\n\t%[1]sB string\n}\n", p), p + "T", p + "T{" + p + "A: 1, " + p + "B: \"b\"}", []string{p + "A", p + "B"},
				fmt.Sprintf(`{"%sA": 7, "%sB": "x"}`, p, p)
		}},
		{"nested", func(p string, r *rand.Rand) (string, string, string, []string, string) {
			return fmt.Sprintf("type %[1]sInner struct {\n\t%[1]sIA int\n\t%[1]sIB string\n}\n\ntype %[1]sT struct {\n\t%[1]sA int\n\t%[1]sIn %[1]sInner\n\t%[1]sP *%[1]sInner\n}\n", p),
				p + "T", p + "T{" + p + "A: 2, " + p + "In: " + p + "Inner{" + p + "IA: 3}}", []string{p + "A", p + "In", p + "P"},
				fmt.Sprintf(`{"%[1]sA": 1, "%[1]sIn": {"%[1]sIA": 5}, "%[1]sP": {"%[1]sIB": "q"}}`, p)
		}},
		{"embedded", func(p string, r *rand.Rand) (string, string, string, []string, string) {
			return fmt.Sprintf("type %[1]sBase struct {\n\t%[1]sBA int\n}\n\ntype %[1]sT struct {\n\t%[1]sBase\n\t%[1]sX int\n}\n", p),
				p + "T", p + "T{" + p + "X: 4}", []string{p + "Base", p + "X", p + "BA"}, fmt.Sprintf(`{"%[1]sBA": 9, "%[1]sX": 1}`, p)
		}},
		{"collections", func(p string, r *rand.Rand) (string, string, string, []string, string) {
			return fmt.Sprintf("type %[1]sEl struct {\n\t%[1]sEA int\n}\n\ntype %[1]sT struct {\n\t%[1]sS []%[1]sEl\n\t%[1]sM map[string]%[1]sEl\n\t%[1]sArr [2]%[1]sEl\n\t%[1]sPP **%[1]sEl\n}\n", p),
				p + "T", p + "T{" + p + "S: []" + p + "El{{" + p + "EA: 1}}}", []string{p + "S", p + "M", p + "Arr"}, fmt.Sprintf(`{"%[1]sS": [{"%[1]sEA": 3}], "%[1]sM": {"k": {"%[1]sEA": 4}}}`, p)
		}},
		{"anonymous", func(p string, r *rand.Rand) (string, string, string, []string, string) {
			return fmt.Sprintf("type %[1]sT struct {\n\t%[1]sA int\n\t%[1]sAn struct {\n\t\t%[1]sAA int\n\t\t%[1]sBB string\n\t}\n}\n", p),
				p + "T", p + "T{" + p + "A: 5}", []string{p + "A", p + "An"}, fmt.Sprintf(`{"%[1]sA": 1, "%[1]sAn": {"%[1]sAA": 2, "%[1]sBB": "z"}}`, p)
		}},
		{"generic", func(p string, r *rand.Rand) (string, string, string, []string, string) {
			return fmt.Sprintf("type %[1]sArg struct {\n\t%[1]sGA int\n}\n\ntype %[1]sG[T any] struct {\n\t%[1]sVal T\n\t%[1]sN int\n}\n", p),
				p + "G[" + p + "Arg]", p + "G[" + p + "Arg]{" + p + "N: 6}", []string{p + "Val", p + "N"}, fmt.Sprintf(`{"%[1]sVal": {"%[1]sGA": 8}, "%[1]sN": 2}`, p)
		}},
		{"generictwice", func(p string, r *rand.Rand) (string, string, string, []string, string) {
			// the same generic type instantiated with two different type arguments
			return fmt.Sprintf("type %[1]sArgA struct {\n\t%[1]sGA int\n}\n\ntype %[1]sArgB struct {\n\t%[1]sGB string\n}\n\ntype %[1]sG[T any] struct {\n\t%[1]sVal T\n}\n\ntype %[1]sT struct {\n\t%[1]sX %[1]sG[%[1]sArgA]\n\t%[1]sY %[1]sG[%[1]sArgB]\n\t%[1]sZ []%[1]sG[*%[1]sArgB]\n}\n", p),
				p + "T", p + "T{}", []string{p + "X", p + "Y", p + "Z"}, fmt.Sprintf(`{"%[1]sX": {"%[1]sVal": {"%[1]sGA": 1}}, "%[1]sY": {"%[1]sVal": {"%[1]sGB": "b"}}}`, p)
		}},
		{"alias", func(p string, r *rand.Rand) (string, string, string, []string, string) {
			return fmt.Sprintf("type %[1]sReal struct {\n\t%[1]sA int\n}\n\ntype %[1]sT = %[1]sReal\n", p),
				p + "T", p + "T{" + p + "A: 7}", []string{p + "A"}, fmt.Sprintf(`{"%[1]sA": 3}`, p)
		}},
		{"unexported", func(p string, r *rand.Rand) (string, string, string, []string, string) {
			lp := strings.ToLower(p[:1]) + p[1:]
			return fmt.Sprintf("type %[1]sT struct {\n\t%[1]sA int\n\t%[2]sb string\n\t%[2]sc *%[1]sT\n}\n", p, lp),
				p + "T", p + "T{" + p + "A: 8}", []string{p + "A", lp + "b"}, fmt.Sprintf(`{"%[1]sA": 3}`, p)
		}},
	}
}

var reflFlows = []string{"direct", "valueof", "helper", "chain3", "localchain", "pointer", "slice", "mapval", "variadic", "variadictail", "storedany", "holder", "json", "jsonroundtrip", "fmt", "lookup", "ifaceparam", "generichelper", "genericdirect"}

// genReflProg builds a program with n shape instances drawn from the given flows.
func genReflProg(r *rand.Rand, n int, flows []string, onlyShapes []string) *ReflProg {
	shapes := reflShapes()
	if onlyShapes != nil {
		var sel []reflShape
		for _, s := range shapes {
			for _, o := range onlyShapes {
				if s.name == o {
					sel = append(sel, s)
				}
			}
		}
		shapes = sel
	}
	mod := "zqrefl" + randLower(r, 5) + ".example.com/rf"
	var mainDecls, depDecls, body strings.Builder
	rp := &ReflProg{}
	for k := 0; k < n; k++ {
		sh := shapes[r.Intn(len(shapes))]
		flow := flows[r.Intn(len(flows))]
		decl := []string{"main", "dep"}[r.Intn(2)]
		p := "Zq" + randAlnum(r, 6) + fmt.Sprintf("k%d", k)
		decls, typeName, valueExpr, fields, jsonIn := sh.decl(p, r)
		q := ""
		if decl == "dep" {
			q = "zqty."
		}
		// qualify type and value expressions for use in main
		qual := func(s string) string {
			if q == "" {
				return s
			}
			// every identifier starting with the instance prefix that names a *type* must be qualified;
			// field keys inside composite literals (followed by ":") must not. Type names are
			// followed by "{", "[", "]" or the end of the expression.
			rx := regexp.MustCompile(`(` + regexp.QuoteMeta(p) + `\w*)(\{|\[|\]|$)`)
			return rx.ReplaceAllString(s, q+"$1$2")
		}
		T, V := qual(typeName), qual(valueExpr)
		id := fmt.Sprintf("S%02d", k)
		namer := fmt.Sprintf("func (%s) ZqNm() string { return \"nm\" }\n", typeName)
		if sh.name == "generic" {
			namer = fmt.Sprintf("func (%sG[T]) ZqNm() string { return \"nm\" }\n", p)
		}
		if sh.name == "alias" {
			namer = fmt.Sprintf("func (%sReal) ZqNm() string { return \"nm\" }\n", p)
		}
		var expr string
		extraMain := ""
		switch flow {
		case "direct":
			expr = fmt.Sprintf("zqrf.Walk(reflect.TypeOf(%s), 0)", V)
		case "valueof":
			expr = fmt.Sprintf("zqrf.ValueNames(%s)", V)
		case "helper":
			expr = fmt.Sprintf("zqrf.Names(%s)", V)
		case "chain3":
			expr = fmt.Sprintf("zqrf.H1(%s)", V)
		case "localchain":
			extraMain = fmt.Sprintf("func lh1%[1]s(v any) string { return lh2%[1]s(v) }\nfunc lh2%[1]s(v any) string { return zqrf.Names(v) }\n", id)
			expr = fmt.Sprintf("lh1%s(%s)", id, V)
		case "pointer":
			expr = fmt.Sprintf("zqrf.Names(&%s)", V)
		case "slice":
			expr = fmt.Sprintf("zqrf.Names([]%s{%s})", T, V)
		case "mapval":
			expr = fmt.Sprintf("zqrf.Names(map[string]%s{\"k\": %s})", T, V)
		case "variadic":
			expr = fmt.Sprintf("zqrf.Var(1, %s)", V)
		case "variadictail":
			expr = fmt.Sprintf("zqrf.VarTail(2, \"s\", %s)", V)
		case "storedany":
			extraMain = fmt.Sprintf("var st%s any = %s\n", id, V)
			expr = fmt.Sprintf("zqrf.Names(st%s)", id)
		case "holder":
			extraMain = fmt.Sprintf("type hold%s struct {\n\tZqHeld%s %s\n}\n", id, id, T)
			expr = fmt.Sprintf("zqrf.Names(hold%s{})", id)
		case "json":
			expr = fmt.Sprintf("zqrf.JSON(%s)", V)
		case "jsonroundtrip":
			expr = fmt.Sprintf("zqrf.Roundtrip(`%s`, new(%s))", jsonIn, T)
		case "fmt":
			expr = fmt.Sprintf("zqrf.Fmt(%s)", V)
		case "lookup":
			var qs []string
			for _, f := range fields {
				qs = append(qs, fmt.Sprintf("%q", f))
			}
			expr = fmt.Sprintf("zqrf.Lookup(%s, %s, \"ZqNoSuchField\")", V, strings.Join(qs, ", "))
		case "ifaceparam":
			decls += "\n" + namer
			extraMain = fmt.Sprintf("func li%s(v zqrf.Namer) string { return zqrf.Iface(v) }\n", id)
			expr = fmt.Sprintf("li%s(%s)", id, V)
		case "generichelper":
			expr = fmt.Sprintf("zqrf.G1(%s)", V)
		case "genericdirect":
			expr = fmt.Sprintf("zqrf.GDirect(%s)", V)
		}
		if decl == "main" {
			mainDecls.WriteString(decls + "\n")
		} else {
			depDecls.WriteString(decls + "\n")
		}
		mainDecls.WriteString(extraMain)
		fmt.Fprintf(&body, "\tfmt.Println(%q, %s)\n", id, expr)
		rp.Cases = append(rp.Cases, ReflCase{ID: id, Shape: sh.name, Flow: flow, Decl: decl, Key: sh.name + "/" + flow + "/" + decl})
	}
	mainSrc := "package main\n\nimport (\n\t\"fmt\"\n\t\"reflect\"\n\n\t\"" + mod + "/zqrf\"\n\t\"" + mod + "/zqty\"\n)\n\nvar _ = reflect.TypeOf\nvar _ zqty.ZqKeep\n\n" +
		mainDecls.String() + "\nfunc main() {\n" + body.String() + "}\n"
	depSrc := "package zqty\n\ntype ZqKeep struct{}\n\n" + depDecls.String()
	rp.Prog = &Prog{Module: mod, Files: map[string]string{
		"go.mod":       "module " + mod + "\n\ngo 1.26\n",
		"main.go":      mainSrc,
		"zqrf/rf.go":   reflHelperPkg,
		"zqty/ty.go":   depSrc,
		"zz_perturb.go": "package main\n",
		"zqrf/zz_perturb.go": "package zqrf\n",
		"zqty/zz_perturb.go": "package zqty\n",
	}}
	return rp
}
