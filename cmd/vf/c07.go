package main

import (
	"bytes"
	"fmt"
	"os"
	"path/filepath"
	"strings"
	"sync"
	"time"
)

func init() { register("C07", "fault_enumeration", checkC07) }

const faultMod = "zqfault.example.com/f"

// faultSource: main -> zqmid -> zqleaf (+ zqasm). Reflection facts flow leaf -> mid -> main:
// zqleaf.ZqNames is a reflecting API, zqmid.ZqWrap passes its argument on, main hands a
// struct of its own to zqmid.ZqWrap; the struct keeps its names only if the cached facts of
// the dependencies are complete. edit selects which package's body is changed.
func faultSource(edit string) map[string]string {
	bump := func(pkg string) string {
		if edit == pkg {
			return " + 1000"
		}
		return ""
	}
	return map[string]string{
		"go.mod": "module " + faultMod + "\n\ngo 1.26\n",
		"main.go": `package main

import (
	"fmt"

	"` + faultMod + `/zqasm"
	"` + faultMod + `/zqmid"
)

type ZqMainType struct {
	ZqMainFieldA int
	ZqMainFieldB string
}

func main() {
	fmt.Println("fault", zqmid.ZqWrap(ZqMainType{1, "x"}), zqmid.ZqCount(3)` + bump("main") + `, zqasm.ZqAdd(40, 2), zqasm.ZqOff())
}
`,
		"second.go": "package main\n\nfunc zqSecond() int { return 2 }\n",
		"zqmid/mid.go": `package zqmid

import "` + faultMod + `/zqleaf"

type ZqMidType struct{ ZqMidField int }

//go:noinline
func ZqWrap(v any) string { return zqleaf.ZqNames(v) + zqleaf.ZqNames(ZqMidType{}) }

//go:noinline
func ZqCount(n int) int { return zqleaf.ZqLeafCount(n) * 2` + bump("mid") + ` }
`,
		"zqleaf/leaf.go": `package zqleaf

import (
	"reflect"
	"strings"
)

type ZqLeafType struct{ ZqLeafField int }

// ZqNames reflects on its argument: callers' types must keep their names.
//
//go:noinline
func ZqNames(v any) string {
	t := reflect.TypeOf(v)
	var names []string
	for i := 0; i < t.NumField(); i++ {
		names = append(names, t.Field(i).Name)
	}
	return t.Name() + "{" + strings.Join(names, ",") + "}"
}

//go:noinline
func ZqLeafCount(n int) int { return n + len(ZqNames(ZqLeafType{}))` + bump("leaf") + ` }
`,
		"zqasm/asm.go": `package zqasm

type ZqPt struct{ ZqX, ZqY int64 }

func zqadd(a, b int64) int64
func zqoff() int64

//go:noinline
func ZqAdd(a, b int64) int64 { return zqadd(a, b) }

//go:noinline
func ZqOff() int64 { return zqoff() }
`,
		"zqasm/asm_amd64.s": `#include "textflag.h"
#include "go_asm.h"

TEXT ·zqadd(SB),NOSPLIT,$0-24
	MOVQ a+0(FP), AX
	ADDQ b+8(FP), AX
	MOVQ AX, ret+16(FP)
	RET

TEXT ·zqoff(SB),NOSPLIT,$0-8
	MOVQ $ZqPt_ZqY, AX
	ADDQ $ZqPt__size, AX
	MOVQ AX, ret+0(FP)
	RET
`,
	}
}

type faultPlan struct {
	Name  string
	Store string // garblecache | gocache | linker | dir
	Apply func(box *Box, gcEntries, goEntries []string) int // returns the number of damaged files
}

func damage(path, kind string) bool {
	st, err := os.Stat(path)
	if err != nil || st.IsDir() {
		return false
	}
	switch kind {
	case "delete":
		return os.Remove(path) == nil
	case "empty":
		return os.Truncate(path, 0) == nil
	case "half":
		return os.Truncate(path, st.Size()/2) == nil
	case "one":
		return os.Truncate(path, 1) == nil
	}
	return false
}

var damageKinds = []string{"delete", "empty", "half", "one"}

func checkC07(c *Ctx) {
	c.SetRule("a 4-package program (reflection facts flow leaf -> mid -> main, one assembly package using go_asm.h names) is built once on a private copy of a std-warm cache; the cache files that build created are enumerated (GARBLE_CACHE/build action and data files incl. go_asm.h name maps; the garbled compile/link outputs in GOCACHE; the patched linker and its stamp). " +
		"Fault plans: every single GARBLE_CACHE entry x {delete, empty, truncate to half, truncate to 1 byte}; GOCACHE entries of the build (quick: sampled, thorough: all) x the same; all 2^4 subsets of four entries from different stores; the linker binary/stamp x kinds, and both of them damaged at once (quick: stamp in {deleted, empty} x linker in 4 kinds; thorough: all 16 pairs); whole-directory deletions in all 7 combinations of {GARBLE_CACHE/build, GARBLE_CACHE/tool, GOCACHE}; corrupt trim.txt. " +
		"After each plan the source is edited (main, mid or leaf body, so that dependants recompile and consult the cached facts) and rebuilt: exit status, sha256 and program stdout (which prints reflected names and assembly results) must equal a fresh-cache build of the edited source. " +
		"distinct_nontrivial = distinct fault plans that actually damaged >=1 existing file.")
	c.Assume("bit flips that keep a file's size are outside the statement (missing, empty, truncated)", "fresh-cache references reuse the obfuscated std closure")
	g := buildGarble("", false)
	pool := warmPool(g, false, K0, K5)
	cfgs := []Config{K0}
	if !c.Quick() {
		cfgs = []Config{K0, K5}
	}
	for _, cfg := range cfgs {
		root := scratch("c07-" + cfg.Name)
		baseSrc := filepath.Join(root, "zqsrc")
		writeTree(baseSrc, faultSource(""))
		w := &Work{Prog: &Prog{Module: faultMod, Files: faultSource("")}, Dir: baseSrc, Root: root}
		if !plainReference(c, w, filepath.Join(root, "plain.bin"), false) {
			return
		}
		// A private, small cache: plain std + linker, then the obfuscated std closure of this config only
		// (every fault plan works on its own copy of it).
		box := newColdBox("c07box-"+cfg.Name, true)
		{
			ws := scratch("c07warmsrc")
			writeTree(ws, warmProgram)
			if wr := box.Garble(g, cfg, ws, 30*time.Minute, nil, "build", "-o", os.DevNull, "."); !wr.OK() {
				c.Inconclusive("warming the private cache failed: " + firstLine(string(wr.Err)))
				return
			}
		}
		before := cacheListing(box)
		r := w.garbleBuild(g, box, cfg, filepath.Join(root, "first.bin"), nil)
		if !r.OK() {
			c.Inconclusive("first build of the fault program failed: " + firstLine(string(r.Err)))
			return
		}
		var gcEntries, goEntries []string
		for _, e := range newCacheEntries(box, before) {
			if strings.HasPrefix(e, box.GarbleCache) {
				gcEntries = append(gcEntries, e)
			} else {
				goEntries = append(goEntries, e)
			}
		}
		c.Count("entries.garble_cache."+cfg.Name, len(gcEntries))
		c.Count("entries.gocache."+cfg.Name, len(goEntries))
		if len(gcEntries) == 0 || len(goEntries) == 0 {
			c.Inconclusive("the build created no cache entries to damage")
			return
		}
		// References: fresh-cache builds of each edited source.
		type refT struct {
			sha string
			out []byte
			ok  bool
		}
		refs := map[string]refT{}
		for _, ed := range []string{"main", "mid", "leaf"} {
			rw := materialize(&Prog{Module: faultMod, Files: faultSource(ed)}, "c07ref")
			rb := warmClone(pool, "c07refbox")
			bin := filepath.Join(rw.Root, "ref.bin")
			rr := rw.garbleBuild(g, rb, cfg, bin, nil)
			if rr.OK() {
				pr := runBin(bin, nil, nil, time.Minute)
				refs[ed] = refT{fileSha(bin), pr.Out, true}
			}
			chmodAndRemove(filepath.Dir(rb.GoCache))
			rw.cleanup()
		}
		if !refs["main"].ok || !refs["mid"].ok || !refs["leaf"].ok {
			c.Inconclusive("reference builds failed")
			return
		}
		if !bytes.Contains(refs["main"].out, []byte("ZqMainType{ZqMainFieldA,ZqMainFieldB}")) {
			c.Inconclusive("reference output lacks the reflected names: " + string(refs["main"].out))
			return
		}
		c.Sample(map[string]any{"config": cfg.Key(), "reference_stdout": string(refs["main"].out), "garble_cache_entries": len(gcEntries), "gocache_entries": len(goEntries)})

		rel := func(b *Box, orig string) string {
			// map an entry path of the template box to the cloned box
			if strings.HasPrefix(orig, box.GarbleCache) {
				return filepath.Join(b.GarbleCache, strings.TrimPrefix(orig, box.GarbleCache))
			}
			return filepath.Join(b.GoCache, strings.TrimPrefix(orig, box.GoCache))
		}
		var plans []faultPlan
		for _, e := range gcEntries {
			for _, k := range damageKinds {
				e, k := e, k
				plans = append(plans, faultPlan{fmt.Sprintf("garblecache/%s/%s", k, entryClass(e)), "garblecache", func(b *Box, _, _ []string) int {
					if damage(rel(b, e), k) {
						return 1
					}
					return 0
				}})
			}
		}
		goSel := goEntries
		if c.Quick() && len(goSel) > 10 {
			rng := subRand(c.Seed, "c07go")
			rng.Shuffle(len(goSel), func(i, j int) { goSel[i], goSel[j] = goSel[j], goSel[i] })
			goSel = goSel[:10]
		}
		for i, e := range goSel {
			kinds := damageKinds
			if c.Quick() {
				kinds = []string{damageKinds[i%4]}
			}
			for _, k := range kinds {
				e, k := e, k
				plans = append(plans, faultPlan{fmt.Sprintf("gocache/%s/%s", k, entryClass(e)), "gocache", func(b *Box, _, _ []string) int {
					if damage(rel(b, e), k) {
						return 1
					}
					return 0
				}})
			}
		}
		// all subsets of four entries from different stores
		four := []string{gcEntries[0], gcEntries[len(gcEntries)-1], goEntries[0], goEntries[len(goEntries)/2]}
		for mask := 1; mask < 16; mask++ {
			mask := mask
			plans = append(plans, faultPlan{fmt.Sprintf("subset/%04b", mask), "mixed", func(b *Box, _, _ []string) int {
				n := 0
				for i, e := range four {
					if mask&(1<<i) != 0 && damage(rel(b, e), damageKinds[(mask+i)%4]) {
						n++
					}
				}
				return n
			}})
		}
		for _, f := range []string{"link", "link.version"} {
			for _, k := range damageKinds {
				f, k := f, k
				plans = append(plans, faultPlan{"linker/" + k + "/" + f, "linker", func(b *Box, _, _ []string) int {
					if damage(filepath.Join(b.GarbleCache, "tool", f), k) {
						return 1
					}
					return 0
				}})
			}
		}
		// both linker-cache files damaged at once (a subset of size two of one store)
		for _, kv := range damageKinds {
			if c.Quick() && kv != "delete" && kv != "empty" {
				continue
			}
			for _, kl := range damageKinds {
				kv, kl := kv, kl
				plans = append(plans, faultPlan{"linker-pair/link=" + kl + "+link.version=" + kv, "linker", func(b *Box, _, _ []string) int {
					n := 0
					if damage(filepath.Join(b.GarbleCache, "tool", "link"), kl) {
						n++
					}
					if damage(filepath.Join(b.GarbleCache, "tool", "link.version"), kv) {
						n++
					}
					return n
				}})
			}
		}
		dirs := []string{"garblecache-build", "garblecache-tool", "gocache"}
		for mask := 1; mask < 8; mask++ {
			if c.Quick() && mask != 1 && mask != 2 && mask != 5 {
				continue // whole GOCACHE deletions rebuild std: thorough only, except one mixed case
			}
			mask := mask
			var nm []string
			for i, d := range dirs {
				if mask&(1<<i) != 0 {
					nm = append(nm, d)
				}
			}
			plans = append(plans, faultPlan{"dir/" + strings.Join(nm, "+"), "dir", func(b *Box, _, _ []string) int {
				n := 0
				if mask&1 != 0 && os.RemoveAll(filepath.Join(b.GarbleCache, "build")) == nil {
					n++
				}
				if mask&2 != 0 && os.RemoveAll(filepath.Join(b.GarbleCache, "tool")) == nil {
					n++
				}
				if mask&4 != 0 {
					ents, _ := os.ReadDir(b.GoCache)
					for _, e := range ents {
						os.RemoveAll(filepath.Join(b.GoCache, e.Name()))
					}
					n++
				}
				return n
			}})
		}
		plans = append(plans, faultPlan{"trim/corrupt-trim.txt", "garblecache", func(b *Box, _, _ []string) int {
			os.WriteFile(filepath.Join(b.GarbleCache, "build", "trim.txt"), []byte("not a number"), 0o644)
			os.WriteFile(filepath.Join(b.GoCache, "trim.txt"), nil, 0o644)
			return 1
		}})

		var mu sync.Mutex
		byStore := map[string]int{}
		parallel(len(plans), 6, func(pi int) {
			pl := plans[pi]
			ed := []string{"main", "mid", "leaf"}[pi%3]
			b := cloneBox(box, fmt.Sprintf("c07p%d", pi))
			defer chmodAndRemove(filepath.Dir(b.GoCache))
			n := pl.Apply(b, gcEntries, goEntries)
			pw := materialize(&Prog{Module: faultMod, Files: faultSource(ed)}, fmt.Sprintf("c07w%d", pi))
			defer pw.cleanup()
			bin := filepath.Join(pw.Root, "after.bin")
			to := 15 * time.Minute
			rr := pw.garbleBuild(g, b, cfg, bin, nil)
			_ = to
			sig := ""
			if n > 0 {
				sig = cfg.Name + "|" + pl.Name + "|" + ed
				mu.Lock()
				byStore[pl.Store]++
				mu.Unlock()
			}
			c.Eval(sig)
			if rr.TimedOut {
				c.Inconclusive("rebuild watchdog fired after fault plan " + pl.Name)
				return
			}
			files := pw.replayFiles(map[string]string{"plan.txt": fmt.Sprintf("config=%s plan=%s edit=%s damaged=%d\n", cfg.Key(), pl.Name, ed, n), "rebuild-output.txt": rr.String()})
			if !rr.OK() {
				c.Violate("rebuild-fails/"+planClass(pl.Name), fmt.Sprintf("%s: after fault plan %s (then editing %s) the build fails: %s", cfg.Name, pl.Name, ed, clip(rr.Err, 600)), files)
				return
			}
			pr := runBin(bin, nil, nil, time.Minute)
			ref := refs[ed]
			if !bytes.Equal(pr.Out, ref.out) {
				c.Violate("behaviour-differs/"+planClass(pl.Name), fmt.Sprintf("%s: after fault plan %s (then editing %s) the program prints %q, a fresh-cache build prints %q", cfg.Name, pl.Name, ed, clip(pr.Out, 300), clip(ref.out, 300)), files)
			} else if fileSha(bin) != ref.sha {
				c.Violate("binary-differs/"+planClass(pl.Name), fmt.Sprintf("%s: after fault plan %s (then editing %s) the binary differs from the fresh-cache build (sha256 %s vs %s)", cfg.Name, pl.Name, ed, fileSha(bin)[:16], ref.sha[:16]), files)
			}
		})
		c.Extra("fault_plans_by_store."+cfg.Name, byStore)
		c.Count("fault_plans."+cfg.Name, len(plans))
		chmodAndRemove(filepath.Dir(box.GoCache))
	}
}

// entryClass describes a cache file by its role suffix (-a action entry, -d data).
func entryClass(path string) string {
	b := filepath.Base(path)
	if i := strings.LastIndexByte(b, '-'); i >= 0 {
		return "entry" + b[i:]
	}
	return "file"
}

func planClass(name string) string {
	parts := strings.Split(name, "/")
	if len(parts) >= 2 {
		if parts[0] == "subset" {
			return "subset"
		}
		return parts[0] + "/" + parts[1]
	}
	return name
}
