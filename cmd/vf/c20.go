package main

import (
	"encoding/json"
	"fmt"
	"math/rand"
	"os"
	"path/filepath"
	"regexp"
	"slices"
	"sort"
	"strings"
	"sync"
	"time"
)

func init() { register("C20", "exploration", checkC20) }

// flagTables derives, from the real go command at run time, which documented
// build/test flags are boolean and which take a value.
type flagTables struct {
	Bool     map[string]bool `json:"bool"`
	Required []string        `json:"required"`
	Optional []string        `json:"optional"`
	Values   []string        `json:"values"`
	Packages []string        `json:"packages"`
	buildSet map[string]bool
	testSet  map[string]bool
}

var rxHelpFlag = regexp.MustCompile(`(?m)^\t(-[A-Za-z][A-Za-z0-9]*)\b`)

func deriveFlagTables(c *Ctx) *flagTables {
	t := &flagTables{Bool: map[string]bool{}, buildSet: map[string]bool{}, testSet: map[string]bool{}}
	probeDir := scratch("c20probe") // no go.mod here: flag parsing happens first
	help := func(topic string) string {
		r := Run(Cmd{Dir: probeDir, Env: plainEnv(), Argv: []string{"go", "help", topic}, Timeout: time.Minute})
		return string(r.Out)
	}
	names := map[string]bool{}
	for _, m := range rxHelpFlag.FindAllStringSubmatch(help("build"), -1) {
		names[m[1]] = true
	}
	names["-o"] = true // documented in the prose of `go help build`
	for _, topic := range []string{"testflag", "test"} {
		for _, m := range rxHelpFlag.FindAllStringSubmatch(help(topic), -1) {
			names[m[1]] = true
		}
	}
	delete(names, "-args") // excluded by the property
	var mu sync.Mutex
	list := sortedKeys(names)
	parallel(len(list), 8, func(i int) {
		f := list[i]
		classify := func(cmd string) (defined, boolean bool) {
			r := Run(Cmd{Dir: probeDir, Env: plainEnv(), Argv: []string{"go", cmd, f + "=vf_not_bool"}, Timeout: time.Minute})
			s := string(r.Err) + string(r.Out)
			if strings.Contains(s, "flag provided but not defined") {
				return false, false
			}
			return true, strings.Contains(s, "invalid boolean value")
		}
		bd, bb := classify("build")
		td, tb := classify("test")
		mu.Lock()
		defer mu.Unlock()
		if bd {
			t.buildSet[f] = true
			t.Bool[f] = bb
		}
		if td {
			t.testSet[f] = true
			t.Bool[f] = tb
		}
		if bd && td && bb != tb {
			c.Inconclusive("flag " + f + " is boolean for one of build/test only")
		}
	})
	// Build-affecting flags: the shared build flags of `go help build`, minus the
	// ones that only change verbosity/what is executed (-a -n -x -v -json), the ones
	// garble always sets itself (-trimpath -toolexec -buildvcs), -o, and -C (which go
	// only accepts as the very first flag and is therefore not generated).
	noList := map[string]bool{"-a": true, "-n": true, "-x": true, "-v": true, "-json": true, "-trimpath": true, "-toolexec": true, "-buildvcs": true, "-o": true, "-C": true}
	optional := map[string]bool{"-p": true, "-work": true, "-modcacherw": true}
	for f := range t.buildSet {
		switch {
		case noList[f]:
		case optional[f]:
			t.Optional = append(t.Optional, f)
		default:
			t.Required = append(t.Required, f)
		}
	}
	sort.Strings(t.Required)
	sort.Strings(t.Optional)
	t.Values = []string{"a,b", "a b", "x", "2", "1s", "./lib", "lib/x.go", "-x", "-race", "--weird", "off", "^TestX$", "out.bin", "main.version=1", "-X=main.v=1 -s", "all=-N -l", "", "a=b=c", "./...", "-"}
	t.Packages = []string{".", "./lib", "./...", "vfstub.example/fix/lib", "std", "./lib/..."}
	return t
}

var stubFixture = map[string]string{
	"go.mod":      "module vfstub.example/fix\n\ngo 1.26\n",
	"main.go":     "package main\n\nimport \"vfstub.example/fix/lib\"\n\nvar version = \"dev\"\n\nfunc main() { println(lib.Hello(), version) }\n",
	"lib/lib.go":  "package lib\n\nfunc Hello() string { return \"hello\" }\n",
	"lib/l_test.go": "package lib\n\nimport \"testing\"\n\nfunc TestX(t *testing.T) {}\n",
}

type stubWorld struct {
	dir, src, stubBin, fakeRoot, canned string
}

func buildStubWorld(c *Ctx) *stubWorld {
	w := &stubWorld{dir: scratch("c20world")}
	w.src = filepath.Join(w.dir, "src")
	writeTree(w.src, stubFixture)
	w.stubBin = filepath.Join(w.dir, "stubbin", "go")
	must(os.MkdirAll(filepath.Dir(w.stubBin), 0o755))
	r := Run(Cmd{Dir: verifRoot, Env: baseEnv(), Argv: []string{"go", "build", "-o", w.stubBin, "./cmd/gostub"}, Timeout: 5 * time.Minute})
	if !r.OK() {
		fatalf("building gostub failed:\n%s", r)
	}
	w.fakeRoot = filepath.Join(w.dir, "fakeroot")
	must(os.MkdirAll(filepath.Join(w.fakeRoot, "bin"), 0o755))
	must(os.Symlink(w.stubBin, filepath.Join(w.fakeRoot, "bin", "go")))
	// Record the canned `go list` answer once with the real go (test variants included).
	base := ensureBase()
	env := baseEnv("GOCACHE="+filepath.Join(base, "gocache"), "GOMODCACHE="+emptyModCache())
	r = Run(Cmd{Dir: w.src, Env: env, Argv: []string{"go", "list", "-json", "-export", "-compiled", "-e", "-deps", "-trimpath", "-buildvcs=false", "-test", "./..."}, Timeout: 10 * time.Minute})
	if !r.OK() {
		fatalf("recording canned go list failed:\n%s", r)
	}
	w.canned = filepath.Join(w.dir, "canned.json")
	must(os.WriteFile(w.canned, r.Out, 0o644))
	return w
}

type stubCall struct {
	Argv []string `json:"argv"`
}

// runWithStub runs garble with the stub go first on PATH and returns what the stub saw.
func (w *stubWorld) run(g *GarbleBin, gflags []string, command string, userArgs []string) (Res, []stubCall) {
	d := scratch("c20case")
	logPath := filepath.Join(d, "stub.log")
	env := baseEnv(
		"GOCACHE="+filepath.Join(workDir, "plain-gocache"), "GARBLE_CACHE="+filepath.Join(d, "garblecache"), "TMPDIR="+d, "GOMODCACHE="+emptyModCache(),
		"VF_STUB_LOG="+logPath, "VF_REAL_GO="+filepath.Join(toolchainRoot(), "bin", "go"), "VF_FAKE_GOROOT="+w.fakeRoot, "VF_STUB_LIST="+w.canned,
	)
	for i, e := range env {
		if strings.HasPrefix(e, "PATH=") {
			env[i] = "PATH=" + filepath.Dir(w.stubBin) + ":" + strings.TrimPrefix(e, "PATH=")
		}
	}
	argv := append([]string{g.Path}, gflags...)
	argv = append(argv, command)
	argv = append(argv, userArgs...)
	r := Run(Cmd{Dir: w.src, Env: env, Argv: argv, Timeout: 2 * time.Minute})
	var calls []stubCall
	data, _ := os.ReadFile(logPath)
	for _, l := range lines(data) {
		var sc stubCall
		if json.Unmarshal([]byte(l), &sc) == nil {
			calls = append(calls, sc)
		}
	}
	os.RemoveAll(d)
	return r, calls
}

func refSplit(t *flagTables, all []string) (flags, args []string) {
	for i := 0; i < len(all); i++ {
		a := all[i]
		if !strings.HasPrefix(a, "-") {
			return all[:i], all[i:]
		}
		name := a
		if strings.HasPrefix(name, "--") {
			name = name[1:]
		}
		if strings.Contains(name, "=") || t.Bool[name] {
			continue
		}
		i++
	}
	return all, nil
}

type fpair struct{ Name, Val string }

// flagPairs parses flags (no packages) into (name, value) pairs of the flags in set.
func flagPairs(t *flagTables, flags []string, set map[string]bool) (pairs []fpair, unknown []string) {
	for i := 0; i < len(flags); i++ {
		a := flags[i]
		if strings.HasPrefix(a, "--") {
			a = a[1:]
		}
		name, val, hasEq := strings.Cut(a, "=")
		if !hasEq {
			if t.Bool[name] {
				val = "<bool>"
			} else if i+1 < len(flags) {
				i++
				val = flags[i]
			} else {
				val = "<missing>"
			}
		}
		if set[name] {
			pairs = append(pairs, fpair{name, val})
		} else {
			unknown = append(unknown, name)
		}
	}
	return
}

func genVector(r *rand.Rand, t *flagTables, names []string, maxLen int) []string {
	var v []string
	nflags := r.Intn(maxLen)
	for i := 0; i < nflags; i++ {
		name := names[r.Intn(len(names))]
		dash := "-"
		if r.Intn(6) == 0 {
			dash = "--"
		}
		if t.Bool[name] {
			switch r.Intn(5) {
			case 0:
				v = append(v, dash+name[1:]+"=true")
			case 1:
				v = append(v, dash+name[1:]+"=false")
			default:
				v = append(v, dash+name[1:])
			}
			continue
		}
		val := t.Values[r.Intn(len(t.Values))]
		if r.Intn(2) == 0 {
			v = append(v, dash+name[1:]+"="+val)
		} else {
			v = append(v, dash+name[1:], val)
		}
	}
	if r.Intn(6) == 0 {
		// File arguments: the go command wants only .go files of one directory.
		return append(v, "main.go")
	}
	for i, n := 0, r.Intn(3); i < n; i++ {
		v = append(v, t.Packages[r.Intn(len(t.Packages))])
	}
	return v
}

var rxGarbleFlagLike = regexp.MustCompile(`^--?(literals|tiny|debug|debugdir|seed)($|=)`)

func checkC20(c *Ctx) {
	c.SetRule("argument vectors (<=6 elements) over every flag documented by `go help build`/`go help testflag`/`go help test` except -args (and -C, -h), in -f v / -f=v / --f forms " +
		"with values that look like flags, paths or lists, followed by package patterns/files (flags-before-packages form). Boolean/valued ground truth is probed from the real go at run time. " +
		"Boundary oracle: a stub `go` first on PATH records the argv of the go list and go build|test|run commands garble spawns; a 15-line reference splitter says what they must contain. " +
		"In-process oracle: the tree's splitFlagsFromArgs/filterForwardBuildFlags versus the same reference. distinct_nontrivial = distinct vectors containing >=1 flag.")
	c.Assume("flags placed after package arguments (accepted by `go test` only) are out of scope", "the stub go answers `go list` with a canned listing of the fixture module")
	t := deriveFlagTables(c)
	c.Extra("boolean_flags_from_real_go", func() []string {
		var b []string
		for f, is := range t.Bool {
			if is {
				b = append(b, f)
			}
		}
		sort.Strings(b)
		return b
	}())
	c.Extra("required_in_go_list", t.Required)
	if len(t.Bool) < 40 || !t.Bool["-race"] || t.Bool["-tags"] {
		c.Inconclusive(fmt.Sprintf("flag table derivation looks wrong: %d flags", len(t.Bool)))
		return
	}
	g := buildGarble("", false)

	// ---- In-process depth.
	out := filepath.Join(scratch("c20"), "report.json")
	tabJSON, _ := json.Marshal(t)
	n := c.pick(20000, 1000000)
	r := runDriver(".", "c20_driver_test.go", "^TestVerifC20$", []string{
		"VERIF_OUT=" + out, fmt.Sprintf("VERIF_SEED=%d", c.Seed), fmt.Sprintf("VERIF_N=%d", n), "VERIF_TABLES=" + string(tabJSON), "VERIF_SKIP_FLAGS=-C",
	}, 30*time.Minute, "")
	if data, err := os.ReadFile(out); err != nil {
		if r.TimedOut {
			c.Inconclusive("in-process driver watchdog fired")
		} else {
			c.Violate("driver/crash", "in-process flag driver failed:\n"+r.String(), nil)
		}
	} else {
		var rep struct {
			Vectors, Distinct int
			WithFlags         int            `json:"with_flags"`
			FlagsSeen         map[string]int `json:"flags_seen"`
			Mismatches        []struct {
				Kind string
				Argv []string
				Got  any
				Want any
			}
		}
		must(json.Unmarshal(data, &rep))
		c.EvalN(rep.Vectors)
		c.Count("inprocess.vectors", rep.Vectors)
		c.Count("inprocess.distinct", rep.Distinct)
		c.Count("inprocess.flags_covered", len(rep.FlagsSeen))
		for _, m := range rep.Mismatches {
			c.Violate(c20Key(m.Kind, m.Argv, t), fmt.Sprintf("in-process %s mismatch for %q: got %v want %v", m.Kind, m.Argv, m.Got, m.Want), map[string]string{"case.json": jsonStr(m)})
		}
	}

	// ---- Boundary vectors through the real binary with the stub go.
	w := buildStubWorld(c)
	names := sortedKeys(t.Bool)
	names = slices.DeleteFunc(names, func(s string) bool { return s == "-C" })
	nb := c.pick(240, 4000)
	type bcase struct {
		cmd  string
		argv []string
	}
	cases := make([]bcase, nb)
	rng := subRand(c.Seed, "c20-boundary", c.Tier)
	for i := range cases {
		cmd := []string{"build", "test", "run"}[rng.Intn(3)]
		var pool []string
		for _, f := range names {
			if (cmd == "test" && t.testSet[f]) || (cmd != "test" && t.buildSet[f]) {
				pool = append(pool, f)
			}
		}
		var v []string
		if i < len(pool)*2 {
			// Systematic part: every flag once alone before a package, in both forms.
			f := pool[i/2]
			if t.Bool[f] {
				v = []string{f, "./lib"}
			} else if i%2 == 0 {
				v = []string{f, "x", "./lib"}
			} else {
				v = []string{f + "=x", "./lib"}
			}
		} else {
			v = genVector(rng, t, pool, 5)
		}
		cases[i] = bcase{cmd, v}
	}
	seenFlags := map[string]bool{}
	var mu sync.Mutex
	parallel(len(cases), 12, func(i int) {
		bc := cases[i]
		flags, args := refSplit(t, bc.argv)
		// Vectors that garble must reject or treats specially are handled below.
		for _, f := range flags {
			if f == "-h" || f == "-help" || f == "--help" {
				return
			}
		}
		res, calls := w.run(g, nil, bc.cmd, bc.argv)
		sig := ""
		if len(flags) > 0 {
			sig = bc.cmd + " " + strings.Join(bc.argv, "\x00")
		}
		c.Eval(sig)
		mu.Lock()
		for _, f := range flags {
			if strings.HasPrefix(f, "-") {
				n, _, _ := strings.Cut(strings.TrimPrefix(f, "-"), "=")
				seenFlags["-"+strings.TrimPrefix(n, "-")] = true
			}
		}
		mu.Unlock()
		if i < 3 {
			c.Sample(map[string]any{"command": bc.cmd, "argv": bc.argv, "stub_saw": calls})
		}
		fail := func(kind, what string) {
			c.Violate(c20Key(kind, bc.argv, t), fmt.Sprintf("garble %s %q: %s\n%s\nstub saw: %s", bc.cmd, bc.argv, what, res, jsonStr(calls)),
				map[string]string{"case.json": jsonStr(map[string]any{"command": bc.cmd, "argv": bc.argv, "stub_calls": calls})})
		}
		// A flag *value* that merely looks like a garble flag is still a value.
		garbleFlagAsFlag := false
		for i := 0; i < len(flags); i++ {
			a := flags[i]
			if rxGarbleFlagLike.MatchString(a) {
				garbleFlagAsFlag = true
			}
			nm := a
			if strings.HasPrefix(nm, "--") {
				nm = nm[1:]
			}
			if !strings.Contains(nm, "=") && !t.Bool[nm] {
				i++
			}
		}
		if garbleFlagAsFlag {
			return
		}
		var listCall, nested *stubCall
		for k := range calls {
			if len(calls[k].Argv) > 0 && calls[k].Argv[0] == "list" && listCall == nil {
				listCall = &calls[k]
			}
			if len(calls[k].Argv) > 0 && calls[k].Argv[0] == bc.cmd {
				nested = &calls[k]
			}
		}
		if res.TimedOut {
			c.Inconclusive("stub run watchdog fired")
			return
		}
		if res.RC != 0 || listCall == nil || nested == nil {
			fail("rejected", "garble did not run go list and the nested go command for a command line the go command's splitting accepts")
			return
		}
		// (i)+(ii): go list argv.
		prefix := []string{"list", "-json", "-export", "-compiled", "-e", "-deps", "-trimpath", "-buildvcs=false"}
		la := listCall.Argv
		if len(la) < len(prefix) || !slices.Equal(la[:len(prefix)], prefix) {
			fail("list-prefix", "unexpected go list prefix")
			return
		}
		rest := la[len(prefix):]
		wantPk := args
		if bc.cmd == "run" && len(args) > 0 {
			// `go run` takes one package (or leading .go files); the rest are program arguments.
			n := 1
			if strings.HasSuffix(args[0], ".go") {
				for n < len(args) && strings.HasSuffix(args[n], ".go") {
					n++
				}
			}
			wantPk = args[:n]
		}
		if len(wantPk) == 0 {
			wantPk = []string{"."}
		}
		// rest = forwarded flags, [-test], packages, linknamed std packages.
		idx := -1
		for k := 0; k+len(wantPk) <= len(rest); k++ {
			if slices.Equal(rest[k:k+len(wantPk)], wantPk) {
				ok := true
				for _, s := range rest[k+len(wantPk):] {
					if strings.HasPrefix(s, "-") || strings.HasPrefix(s, ".") {
						ok = false
					}
				}
				if ok {
					idx = k
					break
				}
			}
		}
		if idx < 0 {
			fail("list-packages", fmt.Sprintf("go list did not receive the packages %q after its flags", wantPk))
			return
		}
		fwd := rest[:idx]
		if bc.cmd == "test" {
			if len(fwd) == 0 || fwd[len(fwd)-1] != "-test" {
				fail("list-test", "go list for `garble test` lacks -test")
				return
			}
			fwd = fwd[:len(fwd)-1]
		}
		reqSet := map[string]bool{}
		for _, f := range t.Required {
			reqSet[f] = true
		}
		allSet := map[string]bool{}
		for _, f := range append(append([]string{}, t.Required...), t.Optional...) {
			allSet[f] = true
		}
		gotPairs, unknown := flagPairs(t, fwd, allSet)
		if len(unknown) > 0 {
			fail("list-extra", fmt.Sprintf("go list received non-build flags %q", unknown))
			return
		}
		var gotReq []fpair
		for _, p := range gotPairs {
			if reqSet[p.Name] {
				gotReq = append(gotReq, p)
			}
		}
		wantReq, _ := flagPairs(t, flags, reqSet)
		if !slices.Equal(gotReq, wantReq) {
			fail("list-forward", fmt.Sprintf("go list received build flags %v, want %v", gotReq, wantReq))
			return
		}
		// (iii): nested command tail equals the user's argv verbatim.
		na := nested.Argv
		if len(na) < len(bc.argv) || !slices.Equal(na[len(na)-len(bc.argv):], bc.argv) {
			fail("nested-tail", "the nested go command does not end with the user's arguments verbatim")
			return
		}
		head := na[:len(na)-len(bc.argv)]
		if len(head) < 4 || head[0] != bc.cmd || head[1] != "-trimpath" || head[2] != "-buildvcs=false" || !strings.HasPrefix(head[3], "-toolexec=") {
			fail("nested-head", fmt.Sprintf("unexpected nested go command head %q", head))
		}
	})
	c.Count("boundary.vectors", len(cases))
	c.Count("boundary.flags_covered", len(seenFlags))

	// ---- Rejections.
	type rej struct {
		gflags []string
		cmd    string
		argv   []string
		key    string
	}
	var rejs []rej
	for _, gf := range []string{"-tiny", "-literals", "-debug", "-seed=random", "-seed=" + seedA, "-debugdir=out", "--tiny", "--seed=" + seedA} {
		for _, cmd := range []string{"build", "test", "run"} {
			rejs = append(rejs, rej{nil, cmd, []string{gf, "./lib"}, "reject/garble-flag-after-command"})
			rejs = append(rejs, rej{nil, cmd, []string{"-tags", "x", gf}, "reject/garble-flag-after-command"})
		}
	}
	for _, uf := range []string{"-run=X", "-short", "-count=2", "-bogus", "-o=x", "-json", "-v", "-x", "--timeout=3s"} {
		for _, cmd := range []string{"reverse", "map"} {
			rejs = append(rejs, rej{nil, cmd, []string{uf, "."}, "reject/unknown-flag-to-" + cmd})
		}
	}
	parallel(len(rejs), 12, func(i int) {
		rj := rejs[i]
		res, calls := w.run(g, rj.gflags, rj.cmd, rj.argv)
		c.Eval("rej|" + rj.cmd + "|" + strings.Join(rj.argv, " "))
		nestedRan := false
		for _, sc := range calls {
			if len(sc.Argv) > 0 && (sc.Argv[0] == "build" || sc.Argv[0] == "test" || sc.Argv[0] == "run") {
				nestedRan = true
			}
		}
		if res.TimedOut {
			c.Inconclusive("stub run watchdog fired")
			return
		}
		if res.RC == 0 || nestedRan || len(res.Err) == 0 {
			c.Violate(rj.key, fmt.Sprintf("garble %s %q was accepted (rc=%d, nested go ran=%v)\n%s", rj.cmd, rj.argv, res.RC, nestedRan, res), nil)
		}
	})
	c.Count("rejections.cases", len(rejs))

	// ---- Values that merely look like garble flags must not be rejected.
	lookalikes := [][]string{{"-o", "bin/app-debug", "."}, {"-o=out-tiny", "."}, {"-tags", "x-seed", "./lib"}, {"-ldflags=-X=main.version=v1-debug", "."}}
	parallel(len(lookalikes), 4, func(i int) {
		v := lookalikes[i]
		res, calls := w.run(g, nil, "build", v)
		c.Eval("lookalike|" + strings.Join(v, " "))
		ok := false
		for _, sc := range calls {
			if len(sc.Argv) > 0 && sc.Argv[0] == "build" && len(sc.Argv) >= len(v) && slices.Equal(sc.Argv[len(sc.Argv)-len(v):], v) {
				ok = true
			}
		}
		if !ok && !res.TimedOut {
			c.Violate("split/value-resembling-garble-flag", fmt.Sprintf("garble build %q: a flag value ending in a garble flag name is rejected instead of passed on\n%s", v, res), nil)
		}
	})
}

// c20Key classifies a failing vector by the first flag that the reference and a
// naive "everything garble knows" reading could disagree on: stable across seeds.
func c20Key(kind string, argv []string, t *flagTables) string {
	var fl []string
	seen := map[string]bool{}
	flags, _ := refSplit(t, argv)
	for i := 0; i < len(flags); i++ {
		a := flags[i]
		if strings.HasPrefix(a, "--") {
			a = a[1:]
		}
		name, _, hasEq := strings.Cut(a, "=")
		if !seen[name] {
			seen[name] = true
			fl = append(fl, name)
		}
		if !hasEq && !t.Bool[name] {
			i++
		}
	}
	sort.Strings(fl)
	if len(fl) > 3 {
		fl = fl[:3]
	}
	return kind + "/" + strings.Join(fl, ",")
}
