package main

import (
	"fmt"
	"math/rand"
)

// Second batch of control-flow function kinds (round 4). Same rules as gen_cf.go: every function
// logs its side effects with tr(...), results and panic values never contain identifier or type
// names of the program (run-time error texts that would name a program type are avoided).

// cfSoloKinds are kinds garble rejects on the pinned tree whatever the parameters ("rejected with a
// build error" is allowed). They stay out of the 8-function programs, where one rejection costs
// eight single-function retries, and are built once each on their own, so that a change which
// makes garble accept them is judged like any other function.
var cfSoloKinds = map[string]bool{"rangefunc": true, "boundmethods": true}

func cfKinds2() []cfKind {
	n := func(r *rand.Rand, k int) string { return fmt.Sprint(r.Intn(k)) }
	return []cfKind{
		{"rangeint", "range-int", func(fn, dir string, r *rand.Rand) string {
			return dir + `
func ` + fn + `(n int) (int, []int) {
	acc := 0
	var seen []int
	for i := range n {
		if i%3 == 1 {
			continue
		}
		acc += i
		seen = append(seen, i)
		if acc > 40 {
			tr("brk", i)
			break
		}
	}
	for range min(n, 3) {
		acc++
	}
	var grid [3][2]int
	for i := range grid {
		for j := range grid[i] {
			grid[i][j] = i*n + j
		}
	}
	return acc + grid[2][1], seen
}
`
		}, func(fn string, r *rand.Rand) []string {
			return []string{fmt.Sprintf("a, s := %s(0); flush(L, a, s)", fn), fmt.Sprintf("a, s := %s(5); flush(L, a, s)", fn), fmt.Sprintf("a, s := %s(%d); flush(L, a, s)", fn, 8+r.Intn(30))}
		}},
		{"rangefunc", "range-over-func", func(fn, dir string, r *rand.Rand) string {
			return `
func ` + fn + `Seq(n int) func(yield func(int, string) bool) {
	return func(yield func(int, string) bool) {
		for i := 0; i < n; i++ {
			tr("y", i)
			if !yield(i, strings.Repeat("x", i)) {
				tr("stop", i)
				return
			}
		}
		tr("end")
	}
}

` + dir + `
func ` + fn + `(n, stop int) (int, string) {
	sum := 0
	last := ""
	for i, s := range ` + fn + `Seq(n) {
		if i == 1 {
			continue
		}
		if i == stop {
			break
		}
		if i == stop+100 {
			return -1, s
		}
		sum += i
		last = s
	}
	for i := range ` + fn + `Seq(2) {
		sum += 10 * i
	}
	return sum, last
}
`
		}, func(fn string, r *rand.Rand) []string {
			return []string{fmt.Sprintf("a, s := %s(0, 9); flush(L, a, s)", fn), fmt.Sprintf("a, s := %s(6, 4); flush(L, a, s)", fn), fmt.Sprintf("a, s := %s(5, %d); flush(L, a, s)", fn, 2+r.Intn(8)), fmt.Sprintf("a, s := %s(104, -97); flush(L, a, s)", fn)}
		}},
		{"sliceops", "slice-append-copy-convert", func(fn, dir string, r *rand.Rand) string {
			return dir + `
func ` + fn + `(n int) ([]int, []int, [3]int, int) {
	base := make([]int, 4, 8)
	for i := range base {
		base[i] = i + n
	}
	a := append(base, 100)
	b := append(base, 200) // shares the backing array with a
	c := base[1:3:3]
	c = append(c, 300) // forced reallocation: base untouched
	copy(base[1:], base) // overlapping copy
	arr := [3]int(a[:3])
	p := (*[2]int)(b[3:])
	p[1]++
	var nilS []int
	nilS = append(nilS, a[4], b[4], len(c), cap(c[:2]))
	s2 := a[:0]
	for _, v := range a {
		if v%2 == 0 {
			s2 = append(s2, v)
		}
	}
	if n > 5 {
		_ = [5]int(c) // too short: panics
	}
	return nilS, s2, arr, len(b[2:cap(b)])
}
`
		}, func(fn string, r *rand.Rand) []string {
			return []string{fmt.Sprintf("a, b, c, e := %s(%s); flush(L, a, b, c, e)", fn, n(r, 5)), fmt.Sprintf("a, b, c, e := %s(3); flush(L, a, b, c, e)", fn), fmt.Sprintf("a, b, c, e := %s(7); flush(L, a, b, c, e)", fn)}
		}},
		{"rtpanics", "runtime-panics", func(fn, dir string, r *rand.Rand) string {
			return dir + `
func ` + fn + `(which, k int) (res int) {
	xs := []int{1, 2, 3}
	var m map[string]int
	var p *pt
	var e any = k
	ch := make(chan int, 1)
	tr("before", which)
	switch which {
	case 0:
		res = xs[k]
	case 1:
		m["a"] = k
	case 2:
		res = p.x
	case 3:
		res = 10 / (k - k)
	case 4:
		res = len(e.(string))
	case 5:
		close(ch)
		close(ch)
	case 6:
		res = len(make([]int, k-100))
	case 7:
		res = xs[1:k][0]
	case 8:
		var sh shaper
		res = sh.area()
	case 9:
		panic(fmt.Errorf("wrapped %d: %w", k, &myErr{k}))
	case 10:
		var arr [4]int
		idx := k
		res = arr[idx%8]
	default:
		res = m["missing"] + xs[0]
	}
	tr("after", which)
	return res + 1
}
`
		}, func(fn string, r *rand.Rand) []string {
			var out []string
			for w := 0; w <= 11; w++ {
				out = append(out, fmt.Sprintf("flush(L, %s(%d, %d))", fn, w, 5+r.Intn(3)))
			}
			out = append(out, fmt.Sprintf("flush(L, %s(0, 2))", fn), fmt.Sprintf("flush(L, %s(7, 3))", fn), fmt.Sprintf("flush(L, %s(10, 3))", fn))
			return out
		}},
		{"arith2", "shifts-overflow-conversions", func(fn, dir string, r *rand.Rand) string {
			return dir + `
func ` + fn + `(a int64, s uint, f float64) []any {
	var out []any
	out = append(out, a<<s, a>>s, uint64(a)>>s, int8(a), uint8(a), int32(a)<<(s%40), uint16(a)>>(s&31))
	mn := int64(-1<<63) >> (s - s) // not a constant: the rewritten function must compute it too
	out = append(out, mn/(a|1)*0+mn/-1, mn%-1, -mn, a&^0xff, a^-1, a%7, -a%7, (a*a*a)>>3)
	out = append(out, int(f), int64(-f), uint8(int(f)), float32(f)*3, f/2 == f*0.5, min(a, 3, int64(s)), max(f, 2.5))
	nan := (f - f) / (f - f)
	out = append(out, nan == nan, nan != nan, nan < 1, 1/(f-f) > 0, -(f-f) == 0)
	c := complex(f, float64(a))
	c = c * c
	out = append(out, real(c), imag(c), c == complex(real(c), imag(c)))
	var u8 uint8 = uint8(a)
	u8 += 200
	u8 *= 3
	var i16 int16 = int16(a)
	i16 -= 32767
	out = append(out, u8, i16, ^u8, -i16, a != 0 && 100/a > 3 || s > 2)
	return out
}
`
		}, func(fn string, r *rand.Rand) []string {
			return []string{
				fmt.Sprintf("flush(L, %s(0, 0, 1.5)...)", fn),
				fmt.Sprintf("flush(L, %s(-77, 3, 9.75)...)", fn),
				fmt.Sprintf("flush(L, %s(%d, %d, %d.25)...)", fn, r.Int63n(1<<40)-(1<<39), 60+r.Intn(10), r.Intn(200)),
				fmt.Sprintf("flush(L, %s(1<<62+%d, 64, 0.5)...)", fn, r.Intn(1000)),
			}
		}},
		{"gotos", "goto-labels", func(fn, dir string, r *rand.Rand) string {
			return dir + `
func ` + fn + `(n int) (int, int) {
	i, acc := 0, 0
loop:
	if i >= n {
		goto done
	}
	if i%4 == 2 {
		i++
		tr("skip", i)
		goto loop
	}
	acc += i
	i++
	{
		j := 0
	inner:
		if j < i%3 {
			acc += j
			j++
			goto inner
		}
	}
	goto loop
done:
	k := 0
outer:
	for a := 0; a < 4; a++ {
		for b := 0; b < 4; b++ {
			switch {
			case b == a:
				continue outer
			case a+b == n%7:
				break outer
			}
			k += a*4 + b
		}
	}
	return acc, k
}
`
		}, func(fn string, r *rand.Rand) []string {
			return []string{fmt.Sprintf("a, b := %s(0); flush(L, a, b)", fn), fmt.Sprintf("a, b := %s(7); flush(L, a, b)", fn), fmt.Sprintf("a, b := %s(%d); flush(L, a, b)", fn, 3+r.Intn(20))}
		}},
		{"methodvals", "method-values-exprs", func(fn, dir string, r *rand.Rand) string {
			return dir + `
func ` + fn + `(s int, useNil bool) (int, int, int) {
	q := sq{s}
	r := &rc{s, 2}
	expr := sq.area
	pexpr := (*rc).area
	iexpr := shaper.area
	q.s += 10
	r.w += 5
	var sh shaper = q
	fs := []func() int{func() int { return expr(q) }, func() int { return pexpr(r) }, func() int { return iexpr(sh) }}
	sh = r
	total := 0
	for i, f := range fs {
		total += (i + 1) * f()
		q.s++
	}
	if useNil {
		var np *rc
		tr("nil-call")
		total += pexpr(np) // the call dereferences nil
	}
	return expr(q) + pexpr(r), iexpr(sh), total
}
`
		}, func(fn string, r *rand.Rand) []string {
			return []string{fmt.Sprintf("a, b, c := %s(%d, false); flush(L, a, b, c)", fn, 1+r.Intn(9)), fmt.Sprintf("a, b, c := %s(2, true); flush(L, a, b, c)", fn)}
		}},
		{"boundmethods", "bound-method-values", func(fn, dir string, r *rand.Rand) string {
			return dir + `
func ` + fn + `(s int) (int, int) {
	q := sq{s}
	bound := q.area // receiver copied now
	q.s += 10
	r := &rc{s, 2}
	pbound := r.area // pointer receiver: sees later writes
	r.w += 5
	return bound(), pbound()
}
`
		}, func(fn string, r *rand.Rand) []string {
			return []string{fmt.Sprintf("a, b := %s(%d); flush(L, a, b)", fn, 1+r.Intn(9))}
		}},
		{"tupleassign", "tuple-assign-evalorder", func(fn, dir string, r *rand.Rand) string {
			return dir + `
func ` + fn + `(n int) ([]int, map[string]int, int, int) {
	a := []int{10, 20, 30, 40}
	i := n % 3
	i, a[i] = i+1, a[i]+i // index evaluated before the assignments
	a[0], a[3] = a[3], a[0]
	x, y := 1, 2
	x, y = y, x+y
	m := map[string]int{"k": 1}
	m["k"], m["j"] = m["j"]+5, m["k"]+7
	m["k"] += tr("k") * 100
	idx := func(s string) int { return tr(s) % 4 }
	val := func(s string, v int) int { tr(s); return v }
	a[idx("i1")] += val("v1", 3)
	a[idx("i2")], a[idx("i3")] = val("v2", 7), val("v3", 8)
	p := &pt{1, 2}
	p.x, p.y = p.y, p.x*10
	p, q := &pt{p.y, p.x}, p
	return a, m, i*1000 + x*100 + y, p.x*7 + q.y
}
`
		}, func(fn string, r *rand.Rand) []string {
			return []string{fmt.Sprintf("a, m, b, c := %s(%s); flush(L, a, len(m), m[\"k\"], m[\"j\"], b, c)", fn, n(r, 9)), fmt.Sprintf("a, m, b, c := %s(2); flush(L, a, len(m), m[\"k\"], m[\"j\"], b, c)", fn)}
		}},
		{"gosync", "goroutines-sync", func(fn, dir string, r *rand.Rand) string {
			return dir + `
func ` + fn + `(n int) (int, []int) {
	var wg sync.WaitGroup
	var mu sync.Mutex
	total := 0
	res := make([]int, n)
	for i := 0; i < n; i++ {
		wg.Add(1)
		go func(k int) {
			defer wg.Done()
			mu.Lock()
			defer mu.Unlock()
			total += k * i
			res[i] = k + i
		}(i * 2)
	}
	wg.Wait()
	ping, pong := make(chan int), make(chan int)
	go func() {
		for v := range ping {
			pong <- v * 2
		}
		close(pong)
	}()
	for i := 0; i < 3; i++ {
		ping <- i + n
		total += <-pong
	}
	close(ping)
	_, open := <-pong
	if open {
		total = -1
	}
	return total, res
}
`
		}, func(fn string, r *rand.Rand) []string {
			return []string{fmt.Sprintf("a, b := %s(0); flush(L, a, b)", fn), fmt.Sprintf("a, b := %s(%d); flush(L, a, b)", fn, 2+r.Intn(6))}
		}},
		{"recursion", "recursion-closures", func(fn, dir string, r *rand.Rand) string {
			return dir + `
func ` + fn + `(n int, memo map[int]int) int {
	if n < 2 {
		return n
	}
	if v, ok := memo[n]; ok {
		tr("hit", n)
		return v
	}
	var tri func(int) int
	tri = func(k int) int {
		if k == 0 {
			return 0
		}
		return k + tri(k-1)
	}
	v := ` + fn + `(n-1, memo) + ` + fn + `(n-2, memo) + tri(n%4)
	memo[n] = v
	return v
}
`
		}, func(fn string, r *rand.Rand) []string {
			return []string{fmt.Sprintf("flush(L, %s(1, nil))", fn), fmt.Sprintf("flush(L, %s(%d, map[int]int{}))", fn, 6+r.Intn(10)), fmt.Sprintf("flush(L, %s(5, nil))", fn)}
		}},
		{"strconvs", "string-rune-conversions", func(fn, dir string, r *rand.Rand) string {
			return dir + `
func ` + fn + `(s string, c rune) (string, int, []byte, bool) {
	rs := []rune(s)
	for i, j := 0, len(rs)-1; i < j; i, j = i+1, j-1 {
		rs[i], rs[j] = rs[j], rs[i]
	}
	rev := string(rs) + string(c) + string(rune(len(rs)+'0'))
	bs := []byte(s)
	n := 0
	for i := 0; i < len(s); i++ {
		if s[i] >= 0x80 {
			n++
			bs[i] = '?'
		}
	}
	acc := ""
	for i := 0; i < 3 && i < len(rs); i++ {
		acc += s[:i] + "|"
	}
	cmp := s < rev || acc+s == s+acc
	if len(s) > 2 {
		acc += s[1:len(s)-1][:1]
	}
	return rev + acc, n*100 + len(rs), bs, cmp
}
`
		}, func(fn string, r *rand.Rand) []string {
			return []string{fmt.Sprintf("a, b, c, e := %s(\"\", 'x'); flush(L, a, b, c, e)", fn), fmt.Sprintf("a, b, c, e := %s(\"héllo, 世界\", 'é'); flush(L, a, b, c, e)", fn), fmt.Sprintf("a, b, c, e := %s(\"abc%d\\xff\", 0x1F600); flush(L, a, b, c, e)", fn, r.Intn(1000))}
		}},
		{"deferloop", "defer-in-loop-closures", func(fn, dir string, r *rand.Rand) string {
			return dir + `
func ` + fn + `(n int) int {
	total := 0
	func() {
		for i := 0; i < n; i++ {
			defer func() { total = total*2 + i; tr("d", i, total) }()
			defer tr("arg", i, total) // arguments evaluated now, call later
			if i == 2 {
				defer (&rc{i, total}).area()
			}
		}
		q := sq{n}
		defer func(f func() int) { total += f() }(func() int { return q.area() })
		q.s = 100
		total = 1
	}()
	func() {
		defer func() {
			if r := recover(); r != nil {
				total += 1000
				tr("rec", r)
			}
		}()
		defer func() { total += 7 }()
		if n%2 == 1 {
			panic(n)
		}
	}()
	return total
}
`
		}, func(fn string, r *rand.Rand) []string {
			return []string{fmt.Sprintf("flush(L, %s(0))", fn), fmt.Sprintf("flush(L, %s(3))", fn), fmt.Sprintf("flush(L, %s(%d))", fn, 4+r.Intn(4))}
		}},
		{"selects", "select-default-nil-closed", func(fn, dir string, r *rand.Rand) string {
			return dir + `
func ` + fn + `(n int) (int, string) {
	var never chan int
	full := make(chan int, 1)
	full <- 1
	closed := make(chan string)
	close(closed)
	got := 0
	log := ""
	for i := 0; i < n; i++ {
		select {
		case v := <-never:
			got += v + 1000
		case full <- i:
			log += "s"
		default:
			log += "d"
			if i%2 == 1 {
				got += <-full
			}
		}
	}
	select {
	case s, ok := <-closed:
		log += fmt.Sprint(s == "", ok)
	}
	buf := make(chan int, n+1)
	for i := 0; i <= n; i++ {
		buf <- i * i
	}
	close(buf)
	for {
		v, ok := <-buf
		if !ok {
			break
		}
		got += v
	}
	return got, log
}
`
		}, func(fn string, r *rand.Rand) []string {
			return []string{fmt.Sprintf("a, b := %s(0); flush(L, a, b)", fn), fmt.Sprintf("a, b := %s(%d); flush(L, a, b)", fn, 3+r.Intn(6))}
		}},
		{"pointers", "pointers-aliasing", func(fn, dir string, r *rand.Rand) string {
			return dir + `
func ` + fn + `(n int) (int, int, bool, [3]int) {
	x := n
	p := &x
	pp := &p
	**pp += 5
	arr := [3]int{1, 2, 3}
	cp := arr // copy
	e := &arr[1]
	*e *= 10
	st := struct {
		a  pt
		ps *pt
	}{pt{1, 2}, &pt{3, 4}}
	f := &st.a.y
	*f += n
	st2 := st // shallow copy: ps shared, a copied
	st2.a.x = 50
	st2.ps.x = 60
	np := new(int)
	*np = *p + *e
	inc := func(q *int) *int { *q++; return q }
	same := inc(p) == p && inc(np) != p
	ptrs := []*int{p, e, f, np}
	s := 0
	for _, q := range ptrs {
		s += *q
		*q = 0
	}
	return s, st.a.x*1000 + st.ps.x*10 + st.a.y + x + arr[1], same, cp
}
`
		}, func(fn string, r *rand.Rand) []string {
			return []string{fmt.Sprintf("a, b, c, e := %s(%s); flush(L, a, b, c, e)", fn, n(r, 50))}
		}},
		{"embedded", "embedded-promoted", func(fn, dir string, r *rand.Rand) string {
			return `
type ` + fn + `Base struct {
	pt
	id int
}

func (b *` + fn + `Base) bump(d int) int { b.id += d; b.x += d; return b.id }
func (b ` + fn + `Base) area() int       { return b.x * b.y }

type ` + fn + `Outer struct {
	*` + fn + `Base
	shaper
	x string // shadows the promoted pt.x
}

` + dir + `
func ` + fn + `(n int) (string, int, int, int) {
	b := &` + fn + `Base{pt{n, 3}, 1}
	o := ` + fn + `Outer{` + fn + `Base: b, shaper: sq{n}, x: "sh"}
	o.bump(2)
	o.y++
	o.pt.x += 100
	var sh shaper = o.` + fn + `Base
	o2 := o
	o2.` + fn + `Base = &` + fn + `Base{pt{1, 1}, 9}
	return o.x, o.` + fn + `Base.x + o.id*1000, sh.area() + o.shaper.area(), o2.bump(1) + b.id
}
`
		}, func(fn string, r *rand.Rand) []string {
			return []string{fmt.Sprintf("a, b, c, e := %s(%s); flush(L, a, b, c, e)", fn, n(r, 20))}
		}},
	}
}
