package main

import (
	"fmt"
	"os"
	"path/filepath"
	"strings"
	"sync"
	"time"
)

func init() { register("C18", "fault_enumeration", checkC18) }

type crashPoint struct {
	Name   string
	State  string        // warm | cold-nolinker
	Fail   string        // GARBLE_VERIF_FAIL spec ("" = timed kill)
	After  time.Duration // timed kill instant
	Double string        // second interruption of the rerun (failpoint spec or "timed"), "" = none
	After2 time.Duration // instant of a timed second interruption
	Debugdir bool        // the build also writes a -debugdir
}

// lastPhase summarises where a killed run was, from the tail of its event log.
func lastPhase(logDir string) string {
	evs := readEvents(logDir)
	if len(evs) == 0 {
		return "before-first-event"
	}
	last := evs[len(evs)-1]
	alive := map[string]int{}
	for _, e := range evs {
		switch e.Kind {
		case "toolexec.begin":
			if e.Pkg != "" {
				alive[e.Str("tool")]++
			}
		case "toolexec.end":
			alive[e.Str("tool")]--
		}
	}
	var running []string
	for _, t := range []string{"asm", "compile", "link"} {
		if alive[t] > 0 {
			running = append(running, fmt.Sprintf("%s x%d", t, alive[t]))
		}
	}
	phase := last.Kind
	if last.Kind == "point" {
		phase = "point:" + last.Str("name")
	}
	if strings.HasPrefix(last.Kind, "link.") {
		phase = "linker:" + last.Kind
	}
	if len(running) > 0 {
		phase += " [" + strings.Join(running, ", ") + " running]"
	}
	return phase
}

func checkC18(c *Ctx) {
	c.SetRule("a build is started in its own process group and the whole group is killed with SIGKILL at a crash point; then the same build is run again on the same caches and TMPDIR and must exit 0 with the sha256 of an uninterrupted build. " +
		"Crash points: hook failpoints with a kill action (after the package listing, before/after each step of the linker patch-build-stamp protocol, before package-cache writes, before the compiler/linker is executed for a package, before the final clean-up and before the cache trim) and PRNG-chosen instants on the wall-clock timeline; " +
		"start states: warm caches with a new program (user-package phases) and linker-less cold caches (std obfuscation, linker patching and building); a sample of reruns is interrupted a second time before the third run is judged. Every trial starts from a fresh copy of its start state. " +
		"distinct_nontrivial = distinct (start state, crash point, phase reached) trials in which the kill hit a running build (failpoint event recorded or the command still alive).")
	c.Assume("SIGKILL of the whole process group models a crash; power loss (unsynced file contents) is out of reach", "TMPDIR leftovers of a killed run are not judged (C19 judges commands that exit)")
	g := buildGarble("", false)
	pool := warmPool(g, false, K0)
	prog := generate(subRand(c.Seed, "c18"), GenOpts{NoTests: true, MinFeats: 5, MaxFeats: 7})
	// Reference: uninterrupted build.
	refSha := ""
	{
		w := materialize(prog, "c18ref")
		box := warmClone(pool, "c18refbox")
		bin := filepath.Join(w.Root, "ref.bin")
		if r := w.garbleBuild(g, box, K0, bin, nil); r.OK() {
			refSha = fileSha(bin)
		}
		chmodAndRemove(filepath.Dir(box.GoCache))
		w.cleanup()
	}
	if refSha == "" {
		c.Inconclusive("the uninterrupted reference build failed (judged by C01)")
		return
	}
	mainPkg := prog.Module
	libPkg := prog.Pkgs[1]
	points := []crashPoint{
		{Name: "top.afterList", State: "warm", Fail: "top.afterList=kill"},
		{Name: "pkgcache.beforePut", State: "warm", Fail: "pkgcache.beforePut=kill!once"},
		{Name: "beforeExec.compile/lib", State: "warm", Fail: "toolexec.beforeExec.compile/" + libPkg + "=kill"},
		{Name: "beforeExec.compile/main", State: "warm", Fail: "toolexec.beforeExec.compile/" + mainPkg + "=kill"},
		{Name: "beforeExec.link", State: "warm", Fail: "toolexec.beforeExec.link=kill"},
		{Name: "top.beforeCleanup", State: "warm", Fail: "top.beforeCleanup=kill"},
		{Name: "top.beforeTrim", State: "warm", Fail: "top.beforeTrim=kill"},
		{Name: "link.beforePatch", State: "cold-nolinker", Fail: "link.beforePatch=kill"},
		{Name: "link.beforeBuild", State: "cold-nolinker", Fail: "link.beforeBuild=kill"},
		{Name: "link.afterBuild", State: "cold-nolinker", Fail: "link.afterBuild=kill"},
		{Name: "link.afterStamp", State: "cold-nolinker", Fail: "link.afterStamp=kill", Double: "toolexec.beforeExec.link=kill"},
		{Name: "beforeExec.compile/runtime", State: "cold-nolinker", Fail: "toolexec.beforeExec.compile/runtime=kill"},
		// builds that also write a -debugdir: the interrupted directory must not block the rerun
		{Name: "debugdir/beforeExec.compile/main", State: "warm", Fail: "toolexec.beforeExec.compile/" + mainPkg + "=kill", Debugdir: true},
		{Name: "debugdir/beforeExec.compile/strconv", State: "warm", Fail: "toolexec.beforeExec.compile/strconv=kill", Debugdir: true},
		{Name: "debugdir/top.beforeCleanup", State: "warm", Fail: "top.beforeCleanup=kill", Debugdir: true},
	}
	rng := subRand(c.Seed, "c18times", c.Tier)
	nWarmTimed, nColdTimed := c.pick(4, 30), c.pick(3, 40)
	for i := 0; i < nWarmTimed; i++ {
		points = append(points, crashPoint{Name: fmt.Sprintf("timed-warm-%d", i), State: "warm", After: time.Duration(100+rng.Intn(3500)) * time.Millisecond})
	}
	for i := 0; i < nColdTimed; i++ {
		cp := crashPoint{Name: fmt.Sprintf("timed-cold-%d", i), State: "cold-nolinker", After: time.Duration(1000+rng.Intn(70000)) * time.Millisecond}
		if i%3 == 2 {
			cp.Double = "timed"
			cp.After2 = time.Duration(500+rng.Intn(20000)) * time.Millisecond
		}
		points = append(points, cp)
	}
	if !c.Quick() {
		for _, p := range []string{"link.beforeBuild", "link.afterBuild", "pkgcache.beforePut", "top.afterList"} {
			points = append(points, crashPoint{Name: p + "+double", State: "cold-nolinker", Fail: p + "=kill!once", Double: "toolexec.beforeExec.link=kill"})
		}
	}
	phases := map[string]int{}
	var mu sync.Mutex
	parallel(len(points), 4, func(pi int) {
		cp := points[pi]
		var box *Box
		if cp.State == "warm" {
			box = warmClone(pool, fmt.Sprintf("c18box%d", pi))
		} else {
			box = newColdBox(fmt.Sprintf("c18box%d", pi), false)
		}
		defer chmodAndRemove(filepath.Dir(box.GoCache))
		w := materialize(prog, fmt.Sprintf("c18p%d", pi))
		defer w.cleanup()
		bin := filepath.Join(w.Root, "out.bin")
		logDir := filepath.Join(w.Root, "log1")
		must(os.MkdirAll(logDir, 0o755))
		runKilled := func(fail string, after time.Duration, logDir string) (Res, bool) {
			env := []string{"GARBLE_VERIF_LOG=" + logDir}
			if fail != "" && fail != "timed" {
				env = append(env, "GARBLE_VERIF_FAIL="+fail)
			}
			var args []string
			if ld := w.Prog.ldflags(); ld != "" {
				args = append(args, ld)
			}
			args = append(args, "-o", bin, ".")
			timeout := 20 * time.Minute
			if after > 0 {
				timeout = after
			}
			cfg := K0
			if cp.Debugdir {
				// The same command, but also asking for the source/garbled trees (outside the module).
				cfg = K0.with("K0dd", []string{"-debugdir=" + filepath.Join(w.Root, "zqdebugdir")}, nil, nil)
			}
			r := Run(Cmd{Dir: w.Dir, Env: box.Env(env...), Argv: garbleArgv(g, cfg, "build", args...), Timeout: timeout})
			killed := false
			if after > 0 {
				killed = r.TimedOut // Run kills the whole process group with SIGKILL
			} else {
				for _, e := range readEvents(logDir) {
					if e.Kind == "point" && e.Str("action") == "kill" {
						killed = true
					}
				}
			}
			return r, killed
		}
		r1, killed := runKilled(cp.Fail, cp.After, logDir)
		phase := lastPhase(logDir)
		trail := []string{fmt.Sprintf("run 1: crash point %s (fail=%q after=%s) -> rc=%d killed=%v phase=%s", cp.Name, cp.Fail, cp.After, r1.RC, killed, phase)}
		if !killed && cp.After == 0 && r1.TimedOut {
			c.Inconclusive("watchdog fired before the failpoint was reached: " + cp.Name)
			return
		}
		os.Remove(bin)
		if cp.Double != "" {
			logDir2 := filepath.Join(w.Root, "log2")
			must(os.MkdirAll(logDir2, 0o755))
			after2 := cp.After2
			r2, k2 := runKilled(cp.Double, after2, logDir2)
			trail = append(trail, fmt.Sprintf("run 2: second interruption (%s) -> rc=%d killed=%v phase=%s", cp.Double, r2.RC, k2, lastPhase(logDir2)))
			os.Remove(bin)
		}
		// The judged rerun: no faults.
		logDir3 := filepath.Join(w.Root, "log3")
		must(os.MkdirAll(logDir3, 0o755))
		r3, _ := runKilled("", 0, logDir3)
		trail = append(trail, fmt.Sprintf("rerun: rc=%d", r3.RC))
		sig := ""
		if killed {
			sig = fmt.Sprintf("%s|%s|%s", cp.State, strings.TrimRight(cp.Name, "0123456789"), phase)
		}
		c.Eval(sig)
		mu.Lock()
		phases[cp.State+": "+phase]++
		mu.Unlock()
		if pi < 2 {
			c.Sample(map[string]any{"crash_point": cp, "trail": trail})
		}
		if r3.TimedOut {
			c.Inconclusive("rerun watchdog fired after crash point " + cp.Name)
			return
		}
		files := w.replayFiles(map[string]string{"trail.txt": strings.Join(trail, "\n") + "\n", "rerun-output.txt": r3.String(), "crashpoint.json": jsonStr(cp)})
		key := cp.Name
		if strings.HasPrefix(cp.Name, "timed-") {
			key = "timed/" + strings.SplitN(phase, " ", 2)[0]
		}
		if !r3.OK() {
			c.Violate("rerun-fails/"+cp.State+"/"+key, fmt.Sprintf("after killing a build at %s (%s, phase %s) the same build fails: %s", cp.Name, cp.State, phase, clip(r3.Err, 800)), files)
			return
		}
		if sha := fileSha(bin); sha != refSha {
			c.Violate("rerun-binary-differs/"+cp.State+"/"+key, fmt.Sprintf("after killing a build at %s (%s, phase %s) the rerun's binary has sha256 %s, an uninterrupted build gives %s", cp.Name, cp.State, phase, sha[:16], refSha[:16]), files)
		}
	})
	c.Extra("phases_hit", phases)
	c.Count("crash_points", len(points))
}
