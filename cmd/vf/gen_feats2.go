package main

import (
	"fmt"
	"strings"
)

// Second batch of feature modules (round 4): constructs the first twenty modules never produced.
// Same soundness rules: output never depends on names, positions, map order, addresses or time.

func init() {
	feature("embedfs", featEmbedFS)
	feature("stdgenerics", featStdGenerics)
	feature("genalias", featGenAlias)
	feature("buildtags", featBuildTags)
	feature("unsafeops", featUnsafeOps)
	feature("anonstructs", featAnonStructs)
	feature("stringer", featStringer)
	// Never picked at random (needs a C compiler and changes what `go list` reports as
	// CompiledGoFiles, which the name-map oracle cannot zip): only programs that ask for it.
	featureTable["cgo"] = featCgo
}

// featEmbedFS: //go:embed into a string, a []byte and an embed.FS (directory pattern).
func featEmbedFS(g *Gen) {
	p := g.lib()
	n := g.names(p, "text=var,u", "blob=var,u", "tree=var,u", "Sum=func,E", "List=func,E", "Holder=type,E", "HF=field,E", "Sink=var,E")
	f := g.newFile(p, "embedfs")
	f.std("embed", "io/fs", "sort")
	dataDir := "zq" + randLower(g.R, 6) + "data"
	one := "zq" + randLower(g.R, 6) + "one.txt"
	two := "zq" + randLower(g.R, 6) + "two.bin"
	p.file(one).raw = "embedded text " + randAlnum(g.R, 12) + "\n"
	p.file(two).raw = "BLOB" + randAlnum(g.R, 20)
	for i := 0; i < 3; i++ {
		p.file(fmt.Sprintf("%s/f%d_%s.txt", dataDir, i, randLower(g.R, 4))).raw = strings.Repeat(fmt.Sprintf("line %d %s\n", i, randAlnum(g.R, 6)), i+1)
	}
	f.add(`
//go:embed «.one»
var «.text» string

//go:embed «.two»
var «.blob» []byte

//go:embed «.dataDir»
var «.tree» embed.FS

type «.Holder» struct{ «.HF» embed.FS }

var «.Sink» any = «.Holder»{}

//go:noinline
func «.Sum»() (int, int, string) {
	s := 0
	for _, b := range «.blob» {
		s += int(b)
	}
	return len(«.text»), s, «.text»[:8]
}

//go:noinline
func «.List»() []string {
	var out []string
	h := «.Holder»{«.HF»: «.tree»}
	fs.WalkDir(h.«.HF», ".", func(path string, d fs.DirEntry, err error) error {
		if err == nil && !d.IsDir() {
			data, _ := h.«.HF».ReadFile(path)
			out = append(out, path+":"+string(rune('0'+len(data)%10)))
		}
		return nil
	})
	sort.Strings(out)
	return out
}
`, d(n, map[string]string{"one": one, "two": two, "dataDir": dataDir}))
	mf, fn := g.mainFeat("embedfs")
	mf.std("fmt")
	q := mf.use(p, g.R)
	mf.add(`
func «.fn»(args []string) {
	a, b, c := «.q»«.Sum»()
	fmt.Println("embedfs", a, b, c, «.q»«.List»(), len(args))
}
`, d(n, map[string]string{"fn": fn, "q": q}))
}

// featStdGenerics: standard-library generics instantiated with the program's types (iter, slices,
// maps, sync/atomic, sync), range-over-func, range-over-int, min/max/clear.
func featStdGenerics(g *Gen) {
	lo, hi := g.twoLibs()
	n1 := g.names(lo, "Item=type,E", "K=field,E", "w=field,u", "Mk=func,E", "All=func,E", "Pairs=func,E", "less=func,u", "Weight=emethod,E", "Box=type,E", "cur=field,u", "Swap=emethod,E", "Load=emethod,E", "Sink=var,E")
	f1 := g.newFile(lo, "stdgen")
	f1.std("iter", "sync/atomic")
	f1.add(`
type «.Item» struct {
	«.K» string
	«.w» int
}

var «.Sink» any = «.Item»{}

//go:noinline
func «.Mk»(k string, w int) «.Item» { return «.Item»{«.K»: k, «.w»: w} }

func (i «.Item») «.Weight»() int { return i.«.w» }

func «.less»(a, b «.Item») int { return a.«.w» - b.«.w» }

// «.All» is a push iterator over items heavier than min.
func «.All»(items []«.Item», min int) iter.Seq[«.Item»] {
	return func(yield func(«.Item») bool) {
		for _, it := range items {
			if it.«.w» >= min && !yield(it) {
				return
			}
		}
	}
}

func «.Pairs»(items []«.Item») iter.Seq2[int, *«.Item»] {
	return func(yield func(int, *«.Item») bool) {
		for i := range len(items) {
			if !yield(i*10, &items[i]) {
				return
			}
		}
	}
}

// «.Box» holds the current item in an atomic.Pointer instantiated with a type of this program.
type «.Box» struct{ «.cur» atomic.Pointer[«.Item»] }

func (b *«.Box») «.Swap»(it *«.Item») *«.Item» { return b.«.cur».Swap(it) }
func (b *«.Box») «.Load»() *«.Item»          { return b.«.cur».Load() }
`, n1)
	n2 := g.names(hi, "Rank=func,E", "byKey=type,u", "Group=func,E", "once=var,u", "cache=var,u")
	f2 := g.newFile(hi, "stdgenuse")
	f2.std("maps", "slices", "sync", "cmp")
	q1 := f2.use(lo, g.R)
	f2.add(`
type «.byKey» map[string][]«.q1»«.Item»

var (
	«.once»  sync.Once
	«.cache» sync.Map
)

//go:noinline
func «.Rank»(n int) ([]string, int, int) {
	var items []«.q1»«.Item»
	for i := range n {
		items = append(items, «.q1»«.Mk»(string(rune('a'+(i*7)%26)), (i*37)%11))
	}
	slices.SortStableFunc(items, func(a, b «.q1»«.Item») int {
		return cmp.Or(cmp.Compare(a.«.Weight»(), b.«.Weight»()), cmp.Compare(a.«.K», b.«.K»))
	})
	var keys []string
	for it := range «.q1»«.All»(items, 4) {
		keys = append(keys, it.«.K»)
		if len(keys) == 5 {
			break
		}
	}
	sum := 0
	for i, p := range «.q1»«.Pairs»(items) {
		sum += i + p.«.Weight»()
	}
	var b «.q1»«.Box»
	old := b.«.Swap»(&items[0])
	«.once».Do(func() { «.cache».Store("k", items[0]) })
	v, _ := «.cache».Load("k")
	return keys, sum + min(n, 3) + max(len(keys), 1), v.(«.q1»«.Item»).«.Weight»() + b.«.Load»().«.Weight»() + map[bool]int{true: 1, false: 0}[old == nil]
}

//go:noinline
func «.Group»(n int) []string {
	gm := «.byKey»{}
	for i := range n {
		k := string(rune('a' + i%3))
		gm[k] = append(gm[k], «.q1»«.Mk»(k, i))
	}
	out := slices.Sorted(maps.Keys(gm))
	for i, k := range out {
		out[i] = k + string(rune('0'+len(gm[k])%10))
	}
	clear(gm)
	return append(out, string(rune('0'+len(gm))))
}
`, d(n1, n2, map[string]string{"q1": q1}))
	mf, fn := g.mainFeat("stdgen")
	mf.std("fmt")
	q2 := mf.use(hi, g.R)
	mf.add(`
func «.fn»(args []string) {
	k, s, w := «.q2»«.Rank»(len(args) + 9)
	fmt.Println("stdgen", k, s, w, «.q2»«.Group»(len(args)+7))
}
`, d(n2, map[string]string{"fn": fn, "q2": q2}))
}

// featGenAlias: generic type aliases, constraints with methods and type sets, generic structs
// embedding instantiations, methods of generic types calling each other, generic functions with
// explicit and inferred instantiation across packages.
func featGenAlias(g *Gen) {
	lo, hi := g.twoLibs()
	n1 := g.names(lo, "Pair=type,E", "A=field,E", "B=field,E", "Swap=emethod,E", "sum=umethod,u", "Num=type,E", "Meas=type,E", "Size=emethod,E", "Len3=type,E", "Fold=func,E", "Tree=type,E", "val=field,u", "kids=field,u", "Add=emethod,E", "walk=umethod,u", "Total=emethod,E", "Sink=var,E")
	f1 := g.newFile(lo, "genbase")
	f1.add(`
type «.Num» interface{ ~int | ~int64 | ~float64 }

type «.Meas» interface {
	comparable
	«.Size»() int
}

type «.Len3» [3]byte

func (l «.Len3») «.Size»() int { return int(l[0]) + len(l) }

type «.Pair»[X any, Y «.Num»] struct {
	«.A» X
	«.B» Y
}

var «.Sink» any = «.Pair»[string, int]{}

func (p «.Pair»[X, Y]) «.Swap»(x X) «.Pair»[X, Y] { return «.Pair»[X, Y]{«.A»: x, «.B»: p.«.sum»(p.«.B»)} }

//go:noinline
func (p «.Pair»[X, Y]) «.sum»(y Y) Y { return p.«.B» + y }

//go:noinline
func «.Fold»[M «.Meas», N «.Num»](ms []M, init N) (N, int) {
	seen := map[M]bool{}
	for _, m := range ms {
		if !seen[m] {
			seen[m] = true
			init += N(m.«.Size»())
		}
	}
	return init, len(seen)
}

// «.Tree» is recursive through a slice of pointers to its own instantiation.
type «.Tree»[T «.Num»] struct {
	«.val»  T
	«.kids» []*«.Tree»[T]
}

func (t *«.Tree»[T]) «.Add»(v T) *«.Tree»[T] {
	k := &«.Tree»[T]{«.val»: v}
	t.«.kids» = append(t.«.kids», k)
	return k
}

func (t *«.Tree»[T]) «.walk»(f func(T)) {
	f(t.«.val»)
	for _, k := range t.«.kids» {
		k.«.walk»(f)
	}
}

func (t *«.Tree»[T]) «.Total»() (s T) {
	t.«.walk»(func(v T) { s += v })
	return
}
`, n1)
	n2 := g.names(hi, "SP=type,E", "IntTree=type,E", "Wrap=type,E", "Tag=field,E", "Run=func,E", "myInt=type,u", "GAlias=type,E")
	f2 := g.newFile(hi, "genalias")
	q1 := f2.use(lo, g.R)
	f2.add(`
// «.SP» is an alias of an instantiation, «.GAlias» a generic alias, «.IntTree» a defined type.
type «.SP» = «.q1»«.Pair»[string, int]

type «.GAlias»[Y «.q1»«.Num»] = «.q1»«.Pair»[[]string, Y]

type «.IntTree» «.q1»«.Tree»[int]

type «.myInt» int64

// «.Wrap» embeds an instantiation and an alias of one.
type «.Wrap» struct {
	«.SP»
	«.q1»«.Tree»[«.myInt»]
	«.Tag» string
}

//go:noinline
func «.Run»(n int) (string, int, float64, int64, int, int) {
	p := «.SP»{«.A»: "x", «.B»: n}.«.Swap»("y")
	ga := «.GAlias»[float64]{«.A»: []string{"q"}, «.B»: 1.5}.«.Swap»(nil)
	w := «.Wrap»{«.SP»: p, «.Tag»: "t"}
	w.«.Add»(«.myInt»(n)).«.Add»(7)
	w.«.Add»(2)
	it := (*«.q1»«.Tree»[int])(&«.IntTree»{})
	it.«.Add»(n).«.Add»(n)
	tot, distinct := «.q1»«.Fold»([]«.q1»«.Len3»{{1}, {2}, {1}}, 0.5)
	return w.«.A» + w.«.Tag», w.«.B», ga.«.B» + tot, int64(w.«.Total»()), it.«.Total»(), distinct + len(ga.«.A»)
}
`, d(n1, n2, map[string]string{"q1": q1}))
	mf, fn := g.mainFeat("genalias")
	mf.std("fmt")
	q2 := mf.use(hi, g.R)
	mf.add(`
func «.fn»(args []string) {
	a, b, c, e, f, h := «.q2»«.Run»(len(args) + 3)
	fmt.Println("genalias", a, b, c, e, f, h)
}
`, d(n2, map[string]string{"fn": fn, "q2": q2}))
}

// featBuildTags: files selected by GOOS/GOARCH file-name suffixes and //go:build lines; the files
// that are excluded declare the same names with other values (and one does not even compile).
func featBuildTags(g *Gen) {
	p := g.lib()
	n := g.names(p, "Plat=func,E", "platName=const,u", "archBits=func,u", "tagged=var,u", "Tagged=func,E")
	stem := "zq" + randLower(g.R, 8) + "plat"
	g.Markers = append(g.Markers, Marker{Name: stem, Class: "filename", Pkg: p.Path, Hide: true})
	fl := p.file(stem + "_linux.go")
	fl.add(`
const «.platName» = "L"

//go:noinline
func «.Plat»() string { return «.platName» + «.archBits»() }
`, n)
	fw := p.file(stem + "_windows.go")
	fw.add(`
const «.platName» = "W"

//go:noinline
func «.Plat»() string { return «.platName» + «.archBits»() + "!" }
`, n)
	fa := p.file(stem + "_amd64.go")
	fa.add(`
//go:noinline
func «.archBits»() string { return "64" }
`, n)
	fo := p.file(stem + "_other.go")
	fo.header = "//go:build !amd64\n\n"
	fo.add(`
//go:noinline
func «.archBits»() string { return "??" }
`, n)
	ft := g.newFile(p, "tagon")
	ft.header = "//go:build !zqsometag && (linux || darwin)\n\n"
	ft.add(`
var «.tagged» = "untagged"
`, n)
	ft2 := g.newFile(p, "tagoff")
	ft2.header = "//go:build zqsometag || !(linux || darwin)\n\n"
	ft2.add(`
var «.tagged» = "tagged"
`, n)
	fi := p.file("zq" + randLower(g.R, 6) + "ignored.go")
	fi.header = "//go:build ignore\n\n"
	fi.add(`
this file is never compiled «.Plat»
`, n)
	fc := g.newFile(p, "tagcommon")
	fc.add(`
//go:noinline
func «.Tagged»() int { return len(«.tagged») }
`, n)
	mf, fn := g.mainFeat("buildtags")
	mf.std("fmt")
	q := mf.use(p, g.R)
	mf.add(`
func «.fn»(args []string) {
	fmt.Println("buildtags", «.q»«.Plat»(), «.q»«.Tagged»(), len(args))
}
`, d(n, map[string]string{"fn": fn, "q": q}))
}

// featUnsafeOps: unsafe.Offsetof/Sizeof/Alignof on fields of obfuscated structs (compile-time
// constants that name fields), unsafe.String/Slice/Add, and a pointer cast between two struct
// types with identical layout.
func featUnsafeOps(g *Gen) {
	p := g.lib()
	n := g.names(p, "Hdr=type,E", "flag=field,u", "Count=field,E", "name=field,u", "Inner=field,E", "In=type,E", "x=field,u", "Y=field,E", "Offsets=func,E", "Twin=type,E", "ta=field,u", "tb=field,u", "Cast=func,E", "Sink=var,E")
	f := g.newFile(p, "unsafeops")
	f.std("unsafe")
	f.add(`
type «.In» struct {
	«.x» uint16
	«.Y» uint64
}

type «.Hdr» struct {
	«.flag»  bool
	«.Count» int32
	«.name»  string
	«.Inner» «.In»
}

type «.Twin» struct {
	«.ta» uint16
	«.tb» uint64
}

var «.Sink» any = [2]any{«.Hdr»{}, «.Twin»{}}

const (
	offCount = unsafe.Offsetof(«.Hdr»{}.«.Count»)
	offY     = unsafe.Offsetof(«.Hdr»{}.«.Inner».«.Y»)
)

var table = [offY + 1]byte{offCount: 7}

//go:noinline
func «.Offsets»() [6]uintptr {
	var h «.Hdr»
	return [6]uintptr{offCount, unsafe.Offsetof(h.«.name»), unsafe.Offsetof(h.«.Inner») + offY, unsafe.Sizeof(h), unsafe.Alignof(h.«.Inner».«.x»), uintptr(table[offCount]) + uintptr(len(table))}
}

//go:noinline
func «.Cast»(v uint64, s string) (uint64, uint16, string, int) {
	in := «.In»{«.x»: 9, «.Y»: v}
	tw := (*«.Twin»)(unsafe.Pointer(&in))
	tw.«.ta»++
	yp := (*uint64)(unsafe.Add(unsafe.Pointer(&in), unsafe.Offsetof(in.«.Y»)))
	*yp += 2
	b := unsafe.Slice(unsafe.StringData(s), len(s))
	return tw.«.tb», in.«.x», unsafe.String(&b[1], len(b)-1), len(b)
}
`, n)
	mf, fn := g.mainFeat("unsafeops")
	mf.std("fmt")
	q := mf.use(p, g.R)
	mf.add(`
func «.fn»(args []string) {
	a, b, c, e := «.q»«.Cast»(uint64(len(args))+40, "unsafe-string")
	fmt.Println("unsafeops", «.q»«.Offsets»(), a, b, c, e)
}
`, d(n, map[string]string{"fn": fn, "q": q}))
}

// featAnonStructs: anonymous struct types in every position (variables, parameters, results, fields,
// map keys, channel elements, slices with elided element types), struct tags, function-typed and
// interface-typed fields, and assignments between identical anonymous types of two packages.
func featAnonStructs(g *Gen) {
	lo, hi := g.twoLibs()
	n1 := g.names(lo, "Cfg=var,E", "Host=field,E", "port=field,u", "Opts=field,E", "Verbose=field,E", "Mk=func,E", "PX=field,E", "PY=field,E", "Handlers=type,E", "On=field,E", "Fmt=field,E", "Table=var,E", "Key=func,E")
	f1 := g.newFile(lo, "anon")
	f1.std("strconv")
	f1.add(`
var «.Cfg» = struct {
	«.Host» string ` + "`json:\"host\" zq:\"a b\"`" + `
	«.port» int
	«.Opts» struct{ «.Verbose» bool }
}{«.Host»: "h", «.port»: 80}

//go:noinline
func «.Mk»(a, b int) struct{ «.PX», «.PY» int } {
	return struct{ «.PX», «.PY» int }{a, b}
}

type «.Handlers» struct {
	«.On»  func(struct{ «.PX», «.PY» int }) int
	«.Fmt» interface{ String() string }
}

var «.Table» = map[struct{ «.PX», «.PY» int }][]struct {
	«.Host» string
	«.port» int
}{
	{1, 2}: {{"a", 1}, {«.Host»: "b"}},
	{«.PY»: 3}: {{«.port»: 5}},
}

//go:noinline
func «.Key»(k struct{ «.PX», «.PY» int }) string {
	s := ""
	for _, e := range «.Table»[k] {
		s += e.«.Host» + strconv.Itoa(e.«.port») + ";"
	}
	«.Cfg».«.Opts».«.Verbose» = !«.Cfg».«.Opts».«.Verbose»
	return s + strconv.Itoa(«.Cfg».«.port») + strconv.FormatBool(«.Cfg».«.Opts».«.Verbose»)
}
`, n1)
	n2 := g.names(hi, "Drive=func,E", "pt=type,u", "strer=type,u")
	f2 := g.newFile(hi, "anonuse")
	q1 := f2.use(lo, g.R)
	f2.add(`
type «.pt» struct{ «.PX», «.PY» int }

type «.strer» string

func (s «.strer») String() string { return string(s) + "!" }

//go:noinline
func «.Drive»(n int) (string, int, string) {
	// a value of lo's anonymous result type is assignable to an identical anonymous type spelled
	// here, and convertible to the named type with the same underlying type
	var mine struct{ «.PX», «.PY» int } = «.q1»«.Mk»(n, 2)
	named := «.pt»(mine)
	h := «.q1»«.Handlers»{
		«.On»:  func(p struct{ «.PX», «.PY» int }) int { return p.«.PX»*10 + p.«.PY» },
		«.Fmt»: «.strer»("s"),
	}
	ch := make(chan struct {
		«.Host» string
		ok       bool
	}, 1)
	ch <- struct {
		«.Host» string
		ok       bool
	}{«.q1»«.Cfg».«.Host», true}
	got := <-ch
	return «.q1»«.Key»(struct{ «.PX», «.PY» int }{1, 2}) + «.q1»«.Key»(mine) + got.«.Host», h.«.On»(mine) + named.«.PY», h.«.Fmt».String()
}
`, d(n1, n2, map[string]string{"q1": q1}))
	mf, fn := g.mainFeat("anon")
	mf.std("fmt")
	q2 := mf.use(hi, g.R)
	mf.add(`
func «.fn»(args []string) {
	a, b, c := «.q2»«.Drive»(len(args) + 1)
	fmt.Println("anon", a, b, c)
}
`, d(n2, map[string]string{"fn": fn, "q2": q2}))
}

// featStringer: stringer-style enum: iota constants, an index table sliced out of one constant
// string, a String method reached through fmt and through an explicit interface.
func featStringer(g *Gen) {
	p := g.lib()
	n := g.names(p, "Color=type,E", "Red=const,E", "Green=const,E", "blue=const,u", "names=const,u", "index=var,u", "Parse=func,E", "level=type,u", "Lv=func,E")
	f := g.newFile(p, "stringer")
	f.std("strconv")
	f.add(`
type «.Color» uint8

const (
	«.Red» «.Color» = iota + 1
	«.Green»
	«.blue»
)

const «.names» = "RedGreenBlue"

var «.index» = [...]uint8{0, 3, 8, 12}

func (c «.Color») String() string {
	c--
	if int(c) >= len(«.index»)-1 {
		return "Color(" + strconv.Itoa(int(c+1)) + ")"
	}
	return «.names»[«.index»[c]:«.index»[c+1]]
}

//go:noinline
func «.Parse»(s string) («.Color», bool) {
	for c := «.Red»; c <= «.blue»; c++ {
		if c.String() == s {
			return c, true
		}
	}
	return 0, false
}

type «.level» int

func (l «.level») Error() string { return "level " + strconv.Itoa(int(l)) }

// «.Lv» returns an error whose dynamic type is unexported.
func «.Lv»(n int) error {
	switch {
	case n%2 == 0:
		return «.level»(n)
	}
	return nil
}
`, n)
	mf, fn := g.mainFeat("stringer")
	mf.std("fmt")
	q := mf.use(p, g.R)
	mf.add(`
func «.fn»(args []string) {
	c, ok := «.q»«.Parse»("Green")
	var s fmt.Stringer = «.q»«.Red»
	// only methods are called through fmt (String, Error); no verb prints a type or field name
	fmt.Println("stringer", c, ok, s, «.q»«.Color»(9), «.q»«.Lv»(len(args)*2), «.q»«.Lv»(1) == nil)
	fmt.Printf("stringer %v %s %d %x\n", c, «.q»«.Green», c, «.q»«.Red»)
}
`, d(n, map[string]string{"fn": fn, "q": q}))
}

// featCgo: a package that imports "C": static C function, C struct with fields, enum constant,
// C string round trip, Go callback exported to C.
func featCgo(g *Gen) {
	p := g.lib()
	n := g.names(p, "CAdd=func,E", "Geo=type,E", "W=field,E", "H=field,E", "Area=func,E", "Greet=func,E", "goTwice=func,u", "Sink=var,E")
	f := g.newFile(p, "cgo")
	f.raw = ""
	f.header = ""
	// The preamble must directly precede import "C", so this file is rendered by hand.
	body := fmt.Sprintf(`package %s

/*
#include <stdlib.h>
#include <string.h>

typedef struct { int w; int h; } zq_rect;
enum { ZQ_SCALE = 3 };

static int zq_add(int a, int b) { return a + b; }
static int zq_area(zq_rect r) { return r.w * r.h * ZQ_SCALE; }
static char *zq_dup(const char *s) { char *d = malloc(strlen(s) + 2); strcpy(d, s); strcat(d, "!"); return d; }
*/
import "C"

import "unsafe"

type %[2]s struct{ %[3]s, %[4]s int }

var %[9]s any = %[2]s{}

//go:noinline
func %[5]s(a, b int) int { return int(C.zq_add(C.int(a), C.int(b))) }

//go:noinline
func %[6]s(g %[2]s) int {
	r := C.zq_rect{w: C.int(g.%[3]s), h: C.int(g.%[4]s)}
	return int(C.zq_area(r)) + %[8]s(int(C.ZQ_SCALE))
}

//go:noinline
func %[8]s(v int) int { return v * 2 }

//go:noinline
func %[7]s(s string) string {
	cs := C.CString(s)
	defer C.free(unsafe.Pointer(cs))
	d := C.zq_dup(cs)
	defer C.free(unsafe.Pointer(d))
	return C.GoString(d)
}
`, p.Name, n["Geo"], n["W"], n["H"], n["CAdd"], n["Area"], n["Greet"], n["goTwice"], n["Sink"])
	f.raw = body
	mf, fn := g.mainFeat("cgo")
	mf.std("fmt")
	q := mf.use(p, g.R)
	mf.add(`
func «.fn»(args []string) {
	fmt.Println("cgo", «.q»«.CAdd»(len(args), 40), «.q»«.Area»(«.q»«.Geo»{«.W»: 3, «.H»: 4}), «.q»«.Greet»("hi"))
}
`, d(n, map[string]string{"fn": fn, "q": q}))
}
