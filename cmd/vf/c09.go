package main

import (
	"bytes"
	"encoding/base64"
	"fmt"
	"os"
	"path/filepath"
	"strings"
)

func init() { register("C09", "exploration", checkC09) }

func checkC09(c *Ctx) {
	c.SetRule("every planted literal is a unique byte sequence (random content with an embedded random tag) of length 0..2049 in one of 10 forms and 16 syntactic positions (see C05); " +
		"after `garble -literals build` the whole literal is searched byte-for-byte in the binary. In-window (8..2048) literals of obfuscated packages must be absent; " +
		"documented exceptions (nosplit function, -ldflags=-X declaration, named constant type, out-of-window size, package outside GOGARBLE) are generated with an `allowed` tag and asserted present in the *regular* binary to prove the scanner can see such data. " +
		"The raw and base64 forms of a random -seed are searched too. distinct_nontrivial = distinct must-hide literals that occur verbatim in the regular binary of the same program.")
	c.Assume("substrings of literals are not required to vanish and are not searched", "the value injected with -ldflags=-X is outside the statement")
	g := buildGarble("", false)
	// A random-looking seed (so that its bytes cannot occur by chance).
	seedBytes := make([]byte, 8)
	subRand(c.Seed, "c09seed").Read(seedBytes)
	seedB64 := base64.RawStdEncoding.EncodeToString(seedBytes)
	kSeed := Config{Name: "K2s", GFlags: []string{"-literals", "-seed=" + seedB64}}
	cfgs := []Config{K2, kSeed}
	nprog := 3
	if !c.Quick() {
		cfgs = []Config{K2, kSeed, K5}
		nprog = 30
	}
	pool := warmPool(g, false, cfgs...)
	posForm := map[string]int{}
	allowedSeen := map[string]int{}
	const libFile = `package %s

// %s returns literals of a second package.
//
//go:noinline
func %s() []string {
	return []string{%s, %s}
}
`
	parallel(nprog*len(cfgs), 6, func(k int) {
		i, cfg := k/len(cfgs), cfgs[k%len(cfgs)]
		rr := subRand(c.Seed, "c09", c.Tier, i)
		lp := genLitProg(rr, c.pick(90, 130))
		// A second package with two more literals; in the GOGARBLE variant it stays unobfuscated.
		libA, libB := []byte("lib literal one "+randAlnum(rr, 12)), []byte("lib literal two "+randAlnum(rr, 20))
		// One module path for all programs, so that the GOGARBLE variants share cache entries.
		const mod = "zqlitcn.example.com/lits"
		src := strings.Replace(lp.Src, "package main\n", "package main\n\nimport \""+mod+"/zqlib\"\n", 1)
		src = strings.Replace(src, "func main() {\n", "func main() {\n\tfor _, s := range zqlib.ZqLits() {\n\t\tprintln(s)\n\t}\n", 1)
		p := &Prog{Module: mod, Files: map[string]string{
			"go.mod":       "module " + mod + "\n\ngo 1.26\n",
			"main.go":      src,
			"x.go":         "package main\n\nvar xTarget = \"default-x-target-value-" + randAlnum(rr, 8) + "\"\n\nfunc init() { println(xTarget) }\n",
			"zqlib/lib.go": fmt.Sprintf(libFile, "zqlib", "ZqLits", "ZqLits", goStringLit(libA), goStringLit(libB)),
		}, LdX: []string{"main.xTarget=injected"}}
		xDefault := p.Files["x.go"][strings.Index(p.Files["x.go"], "\"")+1:]
		xDefault = xDefault[:strings.Index(xDefault, "\"")]
		// Every third program obfuscates only the library package: main's literals may stay.
		gogarbleMain := i%3 == 2
		cfgRun := cfg
		if gogarbleMain {
			cfgRun = cfg.with(cfg.Name+"+GOGARBLE", nil, []string{"GOGARBLE=" + mod + "/zqlib"}, nil)
		}
		w := materialize(p, fmt.Sprintf("c09p%d", k))
		defer w.cleanup()
		pbin := filepath.Join(w.Root, "plain.bin")
		if !plainReference(c, w, pbin, true) {
			return
		}
		plainData, _ := os.ReadFile(pbin)
		gbin := filepath.Join(w.Root, "garbled.bin")
		gr := w.garbleBuild(g, pool.Box(filepath.Join(w.Root, "tmp")), cfgRun, gbin, nil)
		if gr.TimedOut {
			c.Inconclusive("garble -literals build watchdog fired")
			return
		}
		if !gr.OK() {
			c.Inconclusive("garble -literals build failed (judged by C05/C01): " + firstLine(string(gr.Err)))
			return
		}
		data, _ := os.ReadFile(gbin)
		files := func() map[string]string { return w.replayFiles(map[string]string{"config.txt": cfgRun.Key()}) }
		type planted struct {
			data    []byte
			form    string
			pos     string
			allowed string
		}
		var all []planted
		for _, lc := range lp.Cases {
			pl := planted{lc.Data, lc.Form, lc.Pos, lc.Allowed}
			if gogarbleMain && pl.allowed == "" {
				pl.allowed = "package-outside-GOGARBLE"
			}
			all = append(all, pl)
		}
		libAllowed := ""
		all = append(all, planted{libA, "string", "lib-composite", libAllowed}, planted{libB, "string", "lib-composite", libAllowed})
		all = append(all, planted{[]byte(xDefault), "string", "ldflags-X-decl", "ldflags-X-declaration"})
		for _, pl := range all {
			if len(pl.data) == 0 {
				continue
			}
			inPlain := bytes.Contains(plainData, pl.data)
			if pl.allowed != "" {
				c.Eval("")
				if inPlain {
					c.mu.Lock()
					allowedSeen[pl.allowed]++
					c.mu.Unlock()
				}
				continue
			}
			sig := ""
			if inPlain {
				sig = fmt.Sprintf("%x", sha256hex(pl.data)[:16])
				c.mu.Lock()
				posForm[pl.form+"/"+pl.pos]++
				c.mu.Unlock()
			}
			c.Eval(sig)
			if bytes.Contains(data, pl.data) {
				c.Violate("literal-leak/"+pl.form+"/"+pl.pos, fmt.Sprintf("%s: a %d-byte %s literal in position %s appears verbatim in the -literals binary: %q", cfgRun.Name, len(pl.data), pl.form, pl.pos, clip(pl.data, 80)), files())
			}
		}
		if cfg.Name == "K2s" {
			c.Eval("seed-raw")
			c.Eval("seed-b64")
			if bytes.Contains(data, seedBytes) {
				c.Violate("seed-leak/raw", "the raw -seed bytes appear in the binary", files())
			}
			if bytes.Contains(data, []byte(seedB64)) {
				c.Violate("seed-leak/base64", "the base64 -seed value appears in the binary", files())
			}
		}
		if k == 0 {
			c.Sample(map[string]any{"config": cfgRun.Key(), "literals": len(all), "example": map[string]any{"form": all[0].form, "pos": all[0].pos, "len": len(all[0].data), "allowed": all[0].allowed}})
		}
	})
	c.Extra("observable_must_hide_by_form_position", posForm)
	c.Extra("allowed_exception_literals_seen_in_regular_binary", allowedSeen)
}
