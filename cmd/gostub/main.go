// gostub: a stand-in for the go command used by the C20 monitor. It records
// every invocation, forwards harmless queries to the real go, answers `go list`
// from a canned file, and pretends build/test/run succeeded.
package main

import (
	"encoding/json"
	"os"
	"os/exec"
	"path/filepath"
	"strings"
	"syscall"
)

func main() {
	args := os.Args[1:]
	if logPath := os.Getenv("VF_STUB_LOG"); logPath != "" {
		line, _ := json.Marshal(map[string]any{"argv": args, "pid": os.Getpid()})
		f, err := os.OpenFile(logPath, os.O_CREATE|os.O_APPEND|os.O_WRONLY, 0o644)
		if err == nil {
			f.Write(append(line, '\n'))
			f.Close()
		}
	}
	realGo := os.Getenv("VF_REAL_GO")
	if len(args) == 0 {
		os.Exit(2)
	}
	switch args[0] {
	case "env":
		out, err := exec.Command(realGo, args...).Output()
		if err != nil {
			os.Exit(1)
		}
		// Point GOROOT at a directory whose bin/go is this stub, since garble
		// runs `go list` through $GOROOT/bin/go.
		if fake := os.Getenv("VF_FAKE_GOROOT"); fake != "" {
			var m map[string]any
			if json.Unmarshal(out, &m) == nil {
				if _, ok := m["GOROOT"]; ok {
					m["GOROOT"] = fake
					out, _ = json.MarshalIndent(m, "", "\t")
				}
			}
		}
		os.Stdout.Write(out)
	case "tool", "version", "help":
		cmd := exec.Command(realGo, args...)
		cmd.Stdout, cmd.Stderr = os.Stdout, os.Stderr
		if err := cmd.Run(); err != nil {
			os.Exit(1)
		}
	case "list":
		hasDeps := false
		for _, a := range args {
			if a == "-deps" {
				hasDeps = true
			}
		}
		if !hasDeps {
			// garble's follow-up listing of "missing" std packages: nothing is missing.
			os.Exit(0)
		}
		data, err := os.ReadFile(os.Getenv("VF_STUB_LIST"))
		if err != nil {
			os.Stderr.WriteString("gostub: no canned list\n")
			os.Exit(1)
		}
		os.Stdout.Write(data)
	case "build", "test", "run":
		os.Exit(0)
	default:
		// Anything else goes to the real go.
		self, _ := os.Executable()
		_ = self
		_ = filepath.Base
		_ = strings.TrimSpace
		syscall.Exec(realGo, append([]string{"go"}, args...), os.Environ())
		os.Exit(1)
	}
}
