package main

// In-process driver for C08 (part 3), overlaid into /repo (package main).
// The replacer injected into obfuscated binaries (reflect_abi_code.go) is compared
// with strings.NewReplacer on generated pair tables and inputs.

import (
	"encoding/json"
	mathrand "math/rand"
	"os"
	"strconv"
	"strings"
	"testing"
)

func TestVerifC08Replacer(t *testing.T) {
	outPath := os.Getenv("VERIF_OUT")
	if outPath == "" {
		t.Skip("VERIF_OUT not set")
	}
	seed, _ := strconv.ParseInt(os.Getenv("VERIF_SEED"), 10, 64)
	nTables, _ := strconv.Atoi(os.Getenv("VERIF_TABLES_N"))
	nInputs, _ := strconv.Atoi(os.Getenv("VERIF_INPUTS_N"))
	r := mathrand.New(mathrand.NewSource(seed))
	type mism struct {
		Pairs []string `json:"pairs"`
		In    string   `json:"in"`
		Got   string   `json:"got"`
		Want  string   `json:"want"`
	}
	var mismatches []mism
	classes := map[string]int{}
	inputs, replaced := 0, 0
	alphabets := []string{"ab", "abcXYZ_019", "abcdefghijklmnopqrstuvwxyzABCDEFGHIJKLMNOPQRSTUVWXYZ0123456789_"}
	for ti := 0; ti < nTables; ti++ {
		alpha := alphabets[ti%len(alphabets)]
		randWord := func(min, max int) string {
			n := min + r.Intn(max-min+1)
			b := make([]byte, n)
			for i := range b {
				b[i] = alpha[r.Intn(len(alpha))]
			}
			return string(b)
		}
		nPairs := 1 + r.Intn(40)
		seen := map[string]bool{}
		var pairs, keys []string
		for len(keys) < nPairs {
			var k string
			switch {
			case len(keys) > 0 && r.Intn(4) == 0: // shares a prefix with an earlier key
				base := keys[r.Intn(len(keys))]
				k = base[:1+r.Intn(len(base))] + randWord(1, 4)
				classes["prefix-sharing"]++
			case len(keys) > 0 && r.Intn(6) == 0: // contains an earlier key
				k = randWord(1, 2) + keys[r.Intn(len(keys))] + randWord(0, 2)
				classes["nested"]++
			default:
				k = randWord(6, 12) // like obfuscated names
				classes["plain"]++
			}
			if seen[k] {
				continue
			}
			seen[k] = true
			keys = append(keys, k)
			v := "Orig" + randWord(0, 10)
			if r.Intn(8) == 0 {
				v = keys[r.Intn(len(keys))] // a value that looks like another key
			}
			pairs = append(pairs, k, v)
		}
		// garble sorts the pairs by obfuscated name.
		type kv struct{ k, v string }
		var kvs []kv
		for i := 0; i < len(pairs); i += 2 {
			kvs = append(kvs, kv{pairs[i], pairs[i+1]})
		}
		for i := 1; i < len(kvs); i++ {
			for j := i; j > 0 && kvs[j].k < kvs[j-1].k; j-- {
				kvs[j], kvs[j-1] = kvs[j-1], kvs[j]
			}
		}
		pairs = pairs[:0]
		for _, p := range kvs {
			pairs = append(pairs, p.k, p.v)
		}
		ours := _makeGenericReplacer(pairs)
		ref := strings.NewReplacer(pairs...)
		for ii := 0; ii < nInputs; ii++ {
			var sb strings.Builder
			for parts := r.Intn(8); parts >= 0; parts-- {
				switch r.Intn(5) {
				case 0, 1:
					sb.WriteString(keys[r.Intn(len(keys))])
				case 2:
					k := keys[r.Intn(len(keys))]
					sb.WriteString(k[:r.Intn(len(k)+1)])
				case 3:
					sb.WriteString([]string{"*", " ", "struct { ", " }", ".", "[]", "main."}[r.Intn(7)])
				default:
					sb.WriteString(randWord(0, 5))
				}
			}
			in := sb.String()
			got, want := ours.Replace(in), ref.Replace(in)
			inputs++
			if want != in {
				replaced++
			}
			if got != want && len(mismatches) < 10 {
				mismatches = append(mismatches, mism{append([]string{}, pairs...), in, got, want})
			}
		}
	}
	data, _ := json.Marshal(map[string]any{"tables": nTables, "inputs": inputs, "inputs_with_replacement": replaced, "key_classes": classes, "mismatches": mismatches})
	if err := os.WriteFile(outPath, data, 0o644); err != nil {
		t.Fatal(err)
	}
}
