package main

// In-process driver for C16, overlaid into /repo (package main) at check time.
// It executes the current tree's hashWithCustomSalt on generated inputs and
// reports what it observed as JSON in $VERIF_OUT.

import (
	"crypto/sha256"
	"encoding/json"
	"fmt"
	"go/token"
	mathrand "math/rand"
	"os"
	"regexp"
	"strconv"
	"testing"
)

type c16Witness struct {
	Kind string `json:"kind"`
	Salt string `json:"salt"`
	Seed string `json:"seed"`
	Name string `json:"name"`
	Out  string `json:"out"`
	Note string `json:"note,omitempty"`
}

type c16Report struct {
	Calls          int            `json:"calls"`
	DistinctInputs int            `json:"distinct_inputs"`
	Salts          int            `json:"salts"`
	LeadCoverage   map[string]int `json:"lead_coverage"` // class -> distinct raw leading symbols seen
	LeadMissing    []string       `json:"lead_missing"`
	Lengths        map[string]int `json:"lengths"`
	ByClass        map[string]int `json:"by_class"`
	PurityRepeats  int            `json:"purity_repeats"`
	LongNames      int            `json:"long_names_sharing_prefixes"`
	GenuineColl    int            `json:"genuine_collisions"`
	Violations     []c16Witness   `json:"violations"`
	Samples        []c16Witness   `json:"samples"`
}

var c16rx = regexp.MustCompile(`^[A-Za-z_][A-Za-z0-9_]{5,11}$`)

func c16RandIdent(r *mathrand.Rand, exported bool, unicode bool) string {
	first := "abcdefghijklmnopqrstuvwxyz_"
	if exported {
		first = "ABCDEFGHIJKLMNOPQRSTUVWXYZ"
	}
	rest := "abcdefghijklmnopqrstuvwxyzABCDEFGHIJKLMNOPQRSTUVWXYZ0123456789_"
	var uniFirstLower = []rune("αβγδéñüøж世界한ß")
	var uniFirstUpper = []rune("ΑΒΓΔÉÑÜØЖ")
	var uniRest = []rune("αβγéñü世界ЖΔ٣೩")
	n := 1 + r.Intn(20)
	out := []rune{}
	if unicode && r.Intn(2) == 0 {
		if exported {
			out = append(out, uniFirstUpper[r.Intn(len(uniFirstUpper))])
		} else {
			out = append(out, uniFirstLower[r.Intn(len(uniFirstLower))])
		}
	} else {
		out = append(out, rune(first[r.Intn(len(first))]))
	}
	for i := 1; i < n; i++ {
		if unicode && r.Intn(4) == 0 {
			out = append(out, uniRest[r.Intn(len(uniRest))])
		} else {
			out = append(out, rune(rest[r.Intn(len(rest))]))
		}
	}
	s := string(out)
	if s == "_" {
		s = "_x"
	}
	return s
}

func c16RandNonIdent(r *mathrand.Rand) string {
	switch r.Intn(5) {
	case 0:
		return fmt.Sprintf("example.com/%s/%s-%d", c16RandIdent(r, false, false), c16RandIdent(r, false, false), r.Intn(100))
	case 1:
		return fmt.Sprintf("%s.go:%d", c16RandIdent(r, false, false), r.Intn(100000))
	case 2:
		return fmt.Sprintf("%s/%s.v%d", c16RandIdent(r, false, false), c16RandIdent(r, true, true), r.Intn(9))
	case 3:
		return fmt.Sprintf("%d%s", r.Intn(10), c16RandIdent(r, r.Intn(2) == 0, false))
	default:
		return c16RandIdent(r, r.Intn(2) == 0, true) + " " + c16RandIdent(r, false, false)
	}
}

// c16RawPrefix independently recomputes the first n base64 symbols of
// sha256(salt|seed|name). Used only to measure coverage and to classify clashes.
func c16RawPrefix(salt, seed []byte, name string) (string, int) {
	h := sha256.New()
	h.Write(salt)
	h.Write(seed)
	h.Write([]byte(name))
	sum := h.Sum(nil)
	var buf [12]byte
	nameBase64.Encode(buf[:], sum[:9])
	return string(buf[:]), 6 + int(sum[9]%7)
}

// c16Lossy applies the documented lossy fix-ups to a raw prefix so that two raw
// prefixes can be compared "modulo fix-ups".
func c16Lossy(raw string, class string) string {
	b := []byte(raw)
	if b[0] >= '0' && b[0] <= '9' {
		b[0] += 'A' - '0'
	}
	for i := range b {
		if b[i] == '-' {
			b[i] = 'a'
		}
	}
	switch class {
	case "exported":
		if b[0] == '_' {
			b[0] = 'Z'
		} else if b[0] >= 'a' && b[0] <= 'z' {
			b[0] -= 'a' - 'A'
		}
	case "unexported":
		if b[0] >= 'A' && b[0] <= 'Z' {
			b[0] += 'a' - 'A'
		}
	}
	return string(b)
}

func TestVerifC16(t *testing.T) {
	outPath := os.Getenv("VERIF_OUT")
	if outPath == "" {
		t.Skip("VERIF_OUT not set")
	}
	seed, _ := strconv.ParseInt(os.Getenv("VERIF_SEED"), 10, 64)
	nSalts, _ := strconv.Atoi(os.Getenv("VERIF_SALTS"))
	perSalt, _ := strconv.Atoi(os.Getenv("VERIF_PER_SALT"))
	if nSalts == 0 {
		nSalts = 20
	}
	if perSalt == 0 {
		perSalt = 5000
	}
	r := mathrand.New(mathrand.NewSource(seed))
	rep := c16Report{LeadCoverage: map[string]int{}, Lengths: map[string]int{}, ByClass: map[string]int{}}
	lead := map[string]map[byte]bool{"exported": {}, "unexported": {}, "nonident": {}}
	violate := func(kind string, salt, sd []byte, name, out, note string) {
		if len(rep.Violations) < 20 {
			rep.Violations = append(rep.Violations, c16Witness{kind, fmt.Sprintf("%x", salt), fmt.Sprintf("%x", sd), name, out, note})
		}
	}
	defer func() { flagSeed.bytes = nil }()

	type rec struct {
		salt, sd []byte
		name     string
		out      string
	}
	var pending []rec // for interleaved purity re-checks

	for si := 0; si < nSalts; si++ {
		var salt []byte
		switch si % 4 {
		case 0: // like a GarbleActionID
			salt = make([]byte, 32)
			r.Read(salt)
		case 1: // like "import/path|"
			salt = []byte(c16RandNonIdent(r) + "|")
		case 2: // tiny salt
			salt = make([]byte, 1+r.Intn(3))
			r.Read(salt)
		default:
			salt = make([]byte, 1+r.Intn(64))
			r.Read(salt)
		}
		var sd []byte
		if si%2 == 1 {
			sd = make([]byte, 8)
			r.Read(sd)
		}
		rep.Salts++
		byOut := map[string]string{} // out -> name
		names := map[string]bool{}
		// A family of long identifiers that differ only in their tail (generated code, test names):
		// 24 siblings sharing a prefix of 40..400 bytes.
		var family []string
		{
			base := c16RandIdent(r, si%3 == 0, false)
			want := []int{40, 70, 90, 100, 120, 128, 160, 200, 256, 400}[si%10]
			for len(base) < want {
				base += "_" + c16RandIdent(r, false, false)
			}
			for k := 0; k < 24; k++ {
				family = append(family, base+"_"+strconv.Itoa(k*7919))
			}
		}
		for len(names) < perSalt {
			var name string
			if len(family) > 0 {
				name, family = family[0], family[1:]
				if names[name] {
					continue
				}
				rep.LongNames++
				goto have
			}
			switch r.Intn(10) {
			case 0, 1, 2:
				name = c16RandIdent(r, true, false)
			case 3, 4, 5:
				name = c16RandIdent(r, false, false)
			case 6:
				name = c16RandIdent(r, true, true)
			case 7:
				name = c16RandIdent(r, false, true)
			default:
				name = c16RandNonIdent(r)
			}
			if names[name] {
				continue
			}
		have:
			names[name] = true
			class := "nonident"
			if token.IsIdentifier(name) {
				class = "unexported"
				if token.IsExported(name) {
					class = "exported"
				}
			}
			flagSeed.bytes = sd
			out := hashWithCustomSalt(salt, name)
			rep.Calls++
			rep.DistinctInputs++
			rep.ByClass[class]++
			rep.Lengths[strconv.Itoa(len(out))]++
			raw, wantLen := c16RawPrefix(salt, sd, name)
			lead[class][raw[0]] = true
			if len(rep.Samples) < 8 && r.Intn(perSalt/2+1) == 0 {
				rep.Samples = append(rep.Samples, c16Witness{class, fmt.Sprintf("%x", salt), fmt.Sprintf("%x", sd), name, out, ""})
			}

			// Well-formedness.
			if !c16rx.MatchString(out) || !token.IsIdentifier(out) {
				violate("malformed", salt, sd, name, out, "not [A-Za-z_][A-Za-z0-9_]{5,11} / not an identifier")
			}
			// Export preservation.
			if class != "nonident" && token.IsExported(out) != (class == "exported") {
				violate("exportedness", salt, sd, name, out, "exportedness differs from the original identifier")
			}
			// Distinctness under one salt.
			if prev, clash := byOut[out]; clash {
				prevClass := "nonident"
				if token.IsIdentifier(prev) {
					prevClass = "unexported"
					if token.IsExported(prev) {
						prevClass = "exported"
					}
				}
				rawPrev, _ := c16RawPrefix(salt, sd, prev)
				// Genuine only if the 36-bit minimum prefixes agree modulo the lossy fix-ups.
				if c16Lossy(raw[:6], class) == c16Lossy(rawPrev[:6], prevClass) {
					rep.GenuineColl++
				} else {
					violate("collision", salt, sd, name, out, "same output as "+strconv.Quote(prev)+" without a hash-prefix collision")
				}
			} else {
				byOut[out] = name
			}
			_ = wantLen
			// Purity: re-check an earlier input after other calls went by.
			pending = append(pending, rec{salt, sd, name, out})
			if len(pending) > 64 {
				k := r.Intn(len(pending))
				p := pending[k]
				pending[k] = pending[len(pending)-1]
				pending = pending[:len(pending)-1]
				flagSeed.bytes = p.sd
				again := hashWithCustomSalt(p.salt, p.name)
				rep.Calls++
				rep.PurityRepeats++
				if again != p.out {
					violate("impure", p.salt, p.sd, p.name, p.out, "second call returned "+again)
				}
			}
		}
	}
	for class, m := range lead {
		rep.LeadCoverage[class] = len(m)
		const alphabet = "ABCDEFGHIJKLMNOPQRSTUVWXYZabcdefghijklmnopqrstuvwxyz0123456789-_"
		for i := 0; i < len(alphabet); i++ {
			if !m[alphabet[i]] {
				rep.LeadMissing = append(rep.LeadMissing, class+":"+string(alphabet[i]))
			}
		}
	}
	data, _ := json.Marshal(rep)
	if err := os.WriteFile(outPath, data, 0o644); err != nil {
		t.Fatal(err)
	}
}
