package main

// In-process driver for C20, overlaid into /repo (package main) at check time.
// It runs splitFlagsFromArgs and filterForwardBuildFlags of the current tree on
// generated argument vectors and compares them with a reference splitter whose
// boolean / build-affecting tables come from the real go command (passed in by
// the harness as JSON in $VERIF_TABLES).

import (
	"encoding/json"
	"fmt"
	mathrand "math/rand"
	"os"
	"slices"
	"strconv"
	"strings"
	"testing"
)

type c20Tables struct {
	Bool     map[string]bool `json:"bool"`     // flag -> is boolean (all documented flags)
	Required []string        `json:"required"` // build-affecting flags which must reach go list
	Optional []string        `json:"optional"` // flags garble may forward or not
	Values   []string        `json:"values"`
	Packages []string        `json:"packages"`
}

type c20Mismatch struct {
	Kind string   `json:"kind"`
	Argv []string `json:"argv"`
	Got  any      `json:"got"`
	Want any      `json:"want"`
}

func c20RefSplit(t *c20Tables, all []string) (flags, args []string) {
	for i := 0; i < len(all); i++ {
		a := all[i]
		if !strings.HasPrefix(a, "-") {
			return all[:i], all[i:]
		}
		name := a
		if strings.HasPrefix(name, "--") {
			name = name[1:]
		}
		if strings.Contains(name, "=") {
			continue
		}
		if t.Bool[name] {
			continue
		}
		i++
	}
	return all, nil
}

type c20Pair struct{ Name, Val string }

// c20RefForward lists the (flag, value) pairs which must be handed to go list.
func c20RefForward(t *c20Tables, flags []string, set map[string]bool) []c20Pair {
	var out []c20Pair
	for i := 0; i < len(flags); i++ {
		a := flags[i]
		if strings.HasPrefix(a, "--") {
			a = a[1:]
		}
		name, val, hasEq := strings.Cut(a, "=")
		if !hasEq {
			if t.Bool[name] {
				val = "<bool>"
			} else if i+1 < len(flags) {
				i++
				val = flags[i]
			} else {
				val = "<missing>"
			}
		}
		if set[name] {
			out = append(out, c20Pair{name, val})
		}
	}
	return out
}

func c20GenVector(r *mathrand.Rand, t *c20Tables, names []string) []string {
	var v []string
	nflags := r.Intn(5)
	for i := 0; i < nflags; i++ {
		name := names[r.Intn(len(names))]
		dash := "-"
		if r.Intn(5) == 0 {
			dash = "--"
		}
		if t.Bool[name] {
			switch r.Intn(4) {
			case 0:
				v = append(v, dash+name[1:]+"=true")
			case 1:
				v = append(v, dash+name[1:]+"=false")
			default:
				v = append(v, dash+name[1:])
			}
			continue
		}
		val := t.Values[r.Intn(len(t.Values))]
		if r.Intn(2) == 0 {
			v = append(v, dash+name[1:]+"="+val)
		} else {
			v = append(v, dash+name[1:], val)
		}
	}
	npk := r.Intn(3)
	for i := 0; i < npk; i++ {
		v = append(v, t.Packages[r.Intn(len(t.Packages))])
	}
	return v
}

func TestVerifC20(t *testing.T) {
	outPath := os.Getenv("VERIF_OUT")
	if outPath == "" {
		t.Skip("VERIF_OUT not set")
	}
	var tabs c20Tables
	if err := json.Unmarshal([]byte(os.Getenv("VERIF_TABLES")), &tabs); err != nil {
		t.Fatal(err)
	}
	seed, _ := strconv.ParseInt(os.Getenv("VERIF_SEED"), 10, 64)
	n, _ := strconv.Atoi(os.Getenv("VERIF_N"))
	known := map[string]bool{}
	for _, k := range strings.Split(os.Getenv("VERIF_SKIP_FLAGS"), ",") {
		if k != "" {
			known[k] = true
		}
	}
	var names []string
	for name := range tabs.Bool {
		if !known[name] {
			names = append(names, name)
		}
	}
	slices.Sort(names)
	req := map[string]bool{}
	for _, f := range tabs.Required {
		req[f] = true
	}
	opt := map[string]bool{}
	for _, f := range tabs.Optional {
		opt[f] = true
	}
	r := mathrand.New(mathrand.NewSource(seed))
	var mism []c20Mismatch
	distinct := map[string]bool{}
	flagSeen := map[string]int{}
	withFlags := 0
	for i := 0; i < n; i++ {
		v := c20GenVector(r, &tabs, names)
		key := strings.Join(v, "\x00")
		distinct[key] = true
		wantF, wantA := c20RefSplit(&tabs, v)
		gotF, gotA := splitFlagsFromArgs(slices.Clone(v))
		if len(wantF) > 0 {
			withFlags++
		}
		for _, f := range wantF {
			if strings.HasPrefix(f, "-") {
				name, _, _ := strings.Cut(strings.TrimPrefix(f, "-"), "=")
				flagSeen["-"+strings.TrimPrefix(name, "-")]++
			}
		}
		if !slices.Equal(gotF, wantF) || !slices.Equal(gotA, wantA) {
			if len(mism) < 20 {
				mism = append(mism, c20Mismatch{"split", v, [][]string{gotF, gotA}, [][]string{wantF, wantA}})
			}
			continue
		}
		// Forwarding to go list: required flags with values, in order; nothing
		// outside required+optional.
		fwd, _ := filterForwardBuildFlags(slices.Clone(wantF))
		all := map[string]bool{}
		for k := range req {
			all[k] = true
		}
		for k := range opt {
			all[k] = true
		}
		gotPairs := c20RefForward(&tabs, fwd, all)
		// Every element of fwd must be accounted for by a known flag or its value.
		consumed := 0
		for _, p := range c20RefForward(&tabs, fwd, map[string]bool{}) {
			_ = p
		}
		for j := 0; j < len(fwd); j++ {
			a := fwd[j]
			name, _, hasEq := strings.Cut(a, "=")
			if !all[name] {
				consumed = -1
				break
			}
			if !hasEq && !tabs.Bool[name] {
				j++
			}
			consumed++
		}
		var gotReq []c20Pair
		for _, p := range gotPairs {
			if req[p.Name] {
				gotReq = append(gotReq, p)
			}
		}
		wantReq := c20RefForward(&tabs, wantF, req)
		if consumed < 0 || !slices.Equal(gotReq, wantReq) {
			if len(mism) < 20 {
				mism = append(mism, c20Mismatch{"forward", v, fwd, fmt.Sprint(wantReq)})
			}
		}
	}
	rep := map[string]any{
		"vectors": n, "distinct": len(distinct), "with_flags": withFlags, "flags_seen": flagSeen, "mismatches": mism,
	}
	data, _ := json.Marshal(rep)
	if err := os.WriteFile(outPath, data, 0o644); err != nil {
		t.Fatal(err)
	}
}
